"""sim.py — JSON-able simulation configurations, construction of the real model from them,
random configuration generator (the matrix of DESIGN.md 6.4) and a parallel runner with hang
protection.  All observation of /repo is through its public classes and module namespaces."""
import copy, signal, traceback, multiprocessing, os, sys, time, math
import numpy as np
import pandas as pd
from common import *

from aquacrop.core import AquaCropModel
from aquacrop.entities.soil import Soil
from aquacrop.entities.crop import Crop
from aquacrop.entities.inititalWaterContent import InitialWaterContent
from aquacrop.entities.irrigationManagement import IrrigationManagement
from aquacrop.entities.fieldManagement import FieldMngt
from aquacrop.entities.groundWater import GroundWater
from aquacrop.entities.co2 import CO2
from aquacrop.entities.crops.crop_params import crop_params
from aquacrop.utils.prepare_weather import prepare_weather
from aquacrop.utils.data import get_filepath

SOILS = ["Clay", "ClayLoam", "Default", "Loam", "LoamySand", "Sand", "SandyClay", "SandyClayLoam", "SandyLoam",
         "Silt", "SiltClayLoam", "SiltLoam", "SiltClay", "Paddy", "ac_TunisLocal"]
CROPS = list(crop_params.keys())
WEATHER_FILES = ["tunis_climate.txt", "champion_climate.txt", "brussels_climate.txt", "hyderabad_climate.txt",
                 "cordoba_climate.txt"]

_wcache = {}


def base_weather(fname):
    if fname not in _wcache:
        _wcache[fname] = prepare_weather(get_filepath(fname))
    return _wcache[fname].copy()


def weather_range(fname):
    df = base_weather(fname)
    return df.Date.iloc[0], df.Date.iloc[-1]


def make_weather(spec):
    """spec: {'file': name, 'ops': [[op, ...], ...]}.
    ops: ['scale', col, f] ['add', col, v] ['set', col, date0, ndays, v] ['storm', date, mm]"""
    df = base_weather(spec["file"])
    for op in spec.get("ops", []):
        k = op[0]
        if k == "scale":
            df[op[1]] = df[op[1]] * op[2]
        elif k == "add":
            df[op[1]] = df[op[1]] + op[2]
        elif k == "set":
            d0 = pd.to_datetime(op[2]); d1 = d0 + pd.Timedelta(days=op[3])
            df.loc[(df.Date >= d0) & (df.Date < d1), op[1]] = op[4]
        elif k == "storm":
            df.loc[df.Date == pd.to_datetime(op[1]), "Precipitation"] = op[2]
        else:
            raise ValueError("weather op " + str(k))
    df["Precipitation"] = df["Precipitation"].clip(lower=0.0)
    df["ReferenceET"] = df["ReferenceET"].clip(lower=0.1)
    # keep Tmin <= Tmax
    lo = np.minimum(df["MinTemp"], df["MaxTemp"]); hi = np.maximum(df["MinTemp"], df["MaxTemp"])
    df["MinTemp"] = lo; df["MaxTemp"] = hi
    return df


def make_soil(s):
    kw = dict(s.get("kwargs", {}))
    if "dz" in s and s["dz"] is not None:
        kw["dz"] = list(s["dz"])
    soil = Soil(s["type"], **kw)
    for L in s.get("layers", []):
        soil.add_layer(*L)
    for L in s.get("texture_layers", []):
        soil.add_layer_from_texture(*L)
    return soil


def make_crop(c):
    return Crop(c["name"], planting_date=c["planting_date"], harvest_date=c.get("harvest_date"), **c.get("kwargs", {}))


def make_irr(i):
    if i is None:
        return None
    kw = {k: v for k, v in i.items() if k not in ("irrigation_method", "schedule")}
    if i.get("schedule") is not None:
        sch = i["schedule"]
        kw["Schedule"] = pd.DataFrame({"Date": pd.to_datetime([d for d, _ in sch]) if sch else pd.to_datetime([]),
                                       "Depth": [float(x) for _, x in sch]})
    return IrrigationManagement(irrigation_method=i["irrigation_method"], **kw)


def make_field(f):
    return None if f is None else FieldMngt(**f)


def make_gw(g):
    if g is None:
        return None
    return GroundWater(water_table=g.get("water_table", "Y"), method=g.get("method", "Constant"),
                       dates=list(g.get("dates", [])), values=list(g.get("values", [])))


def make_co2(c):
    if c is None:
        return None
    kw = dict(c)
    if "series" in kw:
        ser = kw.pop("series")
        kw["co2_data"] = pd.DataFrame({"year": [y for y, _ in ser], "ppm": [float(p) for _, p in ser]})
    return CO2(**kw)


def make_iwc(w):
    w = w or {}
    return InitialWaterContent(wc_type=w.get("wc_type", "Prop"), method=w.get("method", "Layer"),
                               depth_layer=list(w.get("depth_layer", [1])), value=list(w.get("value", ["FC"])))


def _typed_flags(cfg):
    """cfg["flagtypes"]: hand some boolean options over as numpy.bool_ / 0 / 1 instead of Python bools (deterministically from the
    configuration).  Only in the ways the package gives the same meaning as the bool: field-management flags (compared with ==),
    a TRUE off_season flag (a falsy non-bool off_season is treated as true by the package: observation in DESIGN.md 15.3b)."""
    import json as _json
    rng = rng_for("flagtypes", _json.dumps({k: v for k, v in cfg.items() if k != "flagtypes"}, sort_keys=True, default=str))
    out = {}
    for key in ("field", "fallow_field"):
        f = cfg.get(key)
        if f is not None:
            f = dict(f)
            for k in ("bunds", "mulches", "curve_number_adj", "sr_inhb"):
                if k in f:
                    f[k] = flagtype(rng, f[k])
        out[key] = f
    off = bool(cfg.get("off_season", False))
    out["off_season"] = rng.choice([True, np.bool_(True), 1]) if off else False
    return out


def build_objects(cfg):
    if cfg.get("flagtypes"):
        t = _typed_flags(cfg)
        return dict(
            sim_start_time=cfg["start"], sim_end_time=cfg["end"], weather_df=make_weather(cfg["weather"]),
            soil=make_soil(cfg["soil"]), crop=make_crop(cfg["crop"]), initial_water_content=make_iwc(cfg.get("iwc")),
            irrigation_management=make_irr(cfg.get("irr")), field_management=make_field(t["field"]),
            fallow_field_management=make_field(t["fallow_field"]), groundwater=make_gw(cfg.get("gw")),
            co2_concentration=make_co2(cfg.get("co2")), off_season=t["off_season"])
    return dict(
        sim_start_time=cfg["start"], sim_end_time=cfg["end"], weather_df=make_weather(cfg["weather"]),
        soil=make_soil(cfg["soil"]), crop=make_crop(cfg["crop"]), initial_water_content=make_iwc(cfg.get("iwc")),
        irrigation_management=make_irr(cfg.get("irr")), field_management=make_field(cfg.get("field")),
        fallow_field_management=make_field(cfg.get("fallow_field")), groundwater=make_gw(cfg.get("gw")),
        co2_concentration=make_co2(cfg.get("co2")), off_season=bool(cfg.get("off_season", False)))


def build_model(cfg):
    return AquaCropModel(**build_objects(cfg))


def tables(model):
    """the three daily tables as float arrays + the summary as list of lists (dates -> str)"""
    out = {}
    for nm, g in (("flux", model.get_water_flux), ("storage", model.get_water_storage), ("growth", model.get_crop_growth)):
        t = g()
        out[nm] = np.array(t.values if hasattr(t, "values") else t, dtype=float)
        out[nm + "_cols"] = list(t.columns) if hasattr(t, "columns") else None
    fs = model._outputs.final_stats
    out["final"] = [[(str(v) if isinstance(v, pd.Timestamp) else (float(v) if isinstance(v, (int, float, np.floating, np.integer)) else v))
                     for v in row] for row in fs.values.tolist()]
    return out


def run_till(cfg):
    m = build_model(cfg)
    m.run_model(till_termination=True)
    return m


def exc_info(e):
    tb = traceback.extract_tb(e.__traceback__)
    origin = stmt = None
    for fr in reversed(tb):
        if "/aquacrop/" in fr.filename:
            origin = "%s:%s" % (os.path.basename(fr.filename), fr.name)
            stmt = (fr.line or "").strip()[:200]
            break
    return {"type": type(e).__name__, "msg": str(e)[:300], "origin": origin, "stmt": stmt,
            "last": "%s:%d:%s" % (os.path.basename(tb[-1].filename), tb[-1].lineno, tb[-1].name) if tb else None}


# ---------------------------------------------------------------------------------------
# parallel execution with hang protection
class Hang(BaseException):
    pass


def _alarm(sig, frm):
    raise Hang()


def _call(args):
    fn, payload, tmo = args
    signal.signal(signal.SIGALRM, _alarm)
    signal.alarm(tmo)
    try:
        return fn(payload)
    except Hang:
        return {"hang": True, "payload": payload}
    except Exception as e:  # harness error, not an implementation verdict
        return {"harness_error": traceback.format_exc()[-1500:], "payload": payload}
    finally:
        signal.alarm(0)


def pmap(fn, payloads, timeout=120, procs=None):
    """fn must be a module-level function: payload -> json-able result"""
    procs = procs or NPROC
    if len(payloads) <= 1 or procs == 1:
        return [_call((fn, p, timeout)) for p in payloads]
    ctx = multiprocessing.get_context("fork")
    with ctx.Pool(min(procs, len(payloads))) as pool:
        return pool.map(_call, [(fn, p, timeout) for p in payloads], chunksize=1)


# ---------------------------------------------------------------------------------------
# configuration generator
def md(month, day):
    return "%02d/%02d" % (month, day)


CAL_LEN = None


def crop_length_days(name):
    p = crop_params[name]
    m = p.get("MaturityCD", 0)
    return int(m) if m and m > 0 else 150


def default_planting(rng, name, wfile):
    # northern-hemisphere files: spring/summer crops planted Mar-Jun, winter cereals in autumn
    if name in ("Wheat", "WheatGDD", "Barley", "BarleyGDD", "WheatLongGDD"):
        return md(rng.choice([10, 11]), rng.choice([1, 15, 28]))
    return md(rng.choice([3, 4, 5, 6]), rng.choice([1, 10, 15, 25]))


YLDWC0 = [k for k, v in crop_params.items() if not v.get("YldWC")]


def gen_config(rng, **force):
    """one random valid configuration; `force` overrides switches:
    crop, soil_type, method, seasons, off_season, gw, bunds, mulches, wfile"""
    wfile = force.get("wfile") or rng.choice(WEATHER_FILES)
    w0, w1 = weather_range(wfile)
    strict = force.get("strict", True)     # strict: stay away from the triggers of the known findings
    crop = force.get("crop") or rng.choice([c for c in CROPS if not (strict and c in YLDWC0)])
    plant = force.get("planting") or default_planting(rng, crop, wfile)
    seasons = force.get("seasons") or rng.choice([1, 1, 2, 3])
    y0 = rng.randint(w0.year + 1, max(w0.year + 1, w1.year - seasons - 2))
    if force.get("early"):                  # start in the first years of the weather file (room for decades after the window)
        y0 = min(y0, w0.year + 1 + y0 % 3)
    pm, pd_ = int(plant[:2]), int(plant[3:])
    start_mode = force.get("start_mode") or rng.choice(["at", "at", "before", "after"])
    pdate = pd.Timestamp(year=y0, month=pm, day=pd_)
    if start_mode == "at":
        start = pdate
    elif start_mode == "before":
        start = pdate - pd.Timedelta(days=rng.choice([1, 3, 17, 60]))
    else:
        start = pdate + pd.Timedelta(days=rng.choice([1, 5, 40]))
    length = crop_length_days(crop)
    end_mode = force.get("end_mode") or rng.choice(["after", "after", "after", "mid"])
    if crop_params[crop].get("CalendarType") == 2 and "end_mode" not in force and rng.random() < 0.8:
        end_mode = "after"
    nseas = seasons + (1 if start_mode == "after" else 0)
    last_p = pd.Timestamp(year=y0 + nseas - 1, month=pm, day=pd_)
    if end_mode == "after":
        end = last_p + pd.Timedelta(days=length + rng.choice([35, 60, 120]))
    else:
        end = last_p + pd.Timedelta(days=max(3, int(length * rng.uniform(0.1, 0.9))))
    if end > w1:
        end = w1
    if end.month == 2 and end.day == 29:
        end = end - pd.Timedelta(days=1)   # finding 17 is probed separately
    crop_kwargs = dict(force.get("crop_kwargs") or {})
    if "GDDmethod" not in crop_kwargs and rng.random() < 0.12:
        crop_kwargs["GDDmethod"] = rng.choice([1, 2])        # documented alternatives to the default method 3
    cfg = {"start": start.strftime("%Y/%m/%d"), "end": end.strftime("%Y/%m/%d"),
           "weather": {"file": wfile, "ops": []},
           "crop": {"name": crop, "planting_date": plant, "harvest_date": None, "kwargs": crop_kwargs},
           "off_season": force["off_season"] if "off_season" in force else rng.random() < 0.4}
    # weather perturbations
    r = rng.random()
    if r < 0.25:
        cfg["weather"]["ops"].append(["scale", "Precipitation", rng.choice([0.0, 0.3, 2.0, 4.0])])
    elif r < 0.45:
        for _ in range(rng.randint(1, 4)):
            d = start + pd.Timedelta(days=rng.randint(0, max(1, (end - start).days - 1)))
            cfg["weather"]["ops"].append(["storm", d.strftime("%Y/%m/%d"), float(rng.choice([40, 80, 150, 300]))])
    if rng.random() < 0.15:
        cfg["weather"]["ops"].append(["add", "MaxTemp", rng.choice([-8.0, -4.0, 5.0, 9.0])])
    if rng.random() < 0.1:
        cfg["weather"]["ops"].append(["scale", "ReferenceET", rng.choice([0.5, 1.5, 2.5])])
    # soil
    st = force.get("soil_type") or rng.choice(SOILS + ["custom", "custom", "texture"])
    soil = {"type": st, "kwargs": {}}
    if st in ("custom", "texture"):
        soil["type"] = "custom"
        nl = rng.choice([1, 2, 3])
        ncomp = rng.choice([8, 10, 12, 12, 15])
        dz = [rng.choice([0.05, 0.1, 0.1, 0.15, 0.2]) for _ in range(ncomp)] if rng.random() < 0.5 else [0.1] * 12
        soil["dz"] = [round(x, 2) for x in dz]
        tot = round(sum(soil["dz"]), 2)
        cuts = sorted(rng.sample([round(x, 2) for x in np.cumsum(soil["dz"])[:-1]], nl - 1)) if nl > 1 else []
        bounds = cuts + [tot]
        prev = 0.0
        lay = []
        for b in bounds:
            th = round(b - prev, 2); prev = b
            if st == "texture":
                sand = rng.choice([10, 20, 40, 60, 85]); clay = rng.choice([5, 10, 20, 35, 50])
                if sand + clay > 95: clay = 95 - sand
                lay.append([th, sand, clay, rng.choice([0.5, 1.5, 2.5, 4.0]), 100 if strict else rng.choice([100, 100, 60, 30])])
            else:
                wp = round(rng.uniform(0.05, 0.35), 2); fc = round(wp + rng.uniform(0.06, 0.2), 2)
                s = round(fc + rng.uniform(0.03, 0.2), 2)
                lay.append([th, wp, fc, s, float(rng.choice([2, 15, 100, 500, 1200, 3000])), 100 if strict else rng.choice([100, 100, 50, 20])])
        soil["texture_layers" if st == "texture" else "layers"] = lay
        soil["kwargs"]["cn"] = rng.choice([46, 61, 72, 77, 90])
        soil["kwargs"]["rew"] = rng.choice([4, 9, 14])
    elif rng.random() < 0.25 and st not in ("ac_TunisLocal",):
        soil["dz"] = rng.choice([[0.1] * 12, [0.05] * 6 + [0.1] * 9 + [0.2] * 2, [0.15] * 10, [0.1] * 20, [0.2] * 8])
        zmax = crop_params[crop].get("Zmax", 1.7)
        if strict and sum(min(0.3, math.ceil((0.25 - x) / 0.1 - 1e-9) * 0.1 + x) if x < 0.25 else x for x in soil["dz"]) < zmax + 0.1:
            soil["dz"] = [0.1] * 12
    if rng.random() < 0.3:
        soil["kwargs"]["z_cn"] = rng.choice([0.05, 0.15, 0.25, 0.3, 0.35, 0.55])
    if rng.random() < 0.2:
        soil["kwargs"]["z_germ"] = rng.choice([0.05, 0.15, 0.25, 0.35])
    if rng.random() < 0.2:
        soil["kwargs"]["adj_cn"] = 0
    if rng.random() < 0.15:
        soil["kwargs"]["adj_rew"] = 0
    if rng.random() < 0.1:
        soil["kwargs"]["calc_cn"] = 1
    cfg["soil"] = soil
    # initial water content
    r = rng.random()
    if r < 0.4:
        cfg["iwc"] = {"wc_type": "Prop", "method": "Layer", "depth_layer": [1], "value": [rng.choice(["FC", "FC", "WP", "SAT"])]}
    elif r < 0.7:
        cfg["iwc"] = {"wc_type": "Pct", "method": "Layer", "depth_layer": [1], "value": [rng.choice([0, 30, 45, 70, 100])]}
    elif r < 0.85:
        cfg["iwc"] = {"wc_type": "Pct", "method": "Depth", "depth_layer": [0.2, 0.6, 1.1], "value": [rng.choice([20, 80]), 50, rng.choice([10, 100])]}
    else:
        cfg["iwc"] = None
    nlayers = len(soil.get("layers", soil.get("texture_layers", []))) or (2 if st in ("Paddy", "ac_TunisLocal") else 1)
    if cfg["iwc"] and cfg["iwc"]["method"] == "Layer" and nlayers > 1:
        cfg["iwc"]["depth_layer"] = list(range(1, nlayers + 1))
        cfg["iwc"]["value"] = [cfg["iwc"]["value"][0]] * nlayers
    if cfg["iwc"] is None and nlayers > 1:
        cfg["iwc"] = {"wc_type": "Prop", "method": "Layer", "depth_layer": list(range(1, nlayers + 1)), "value": ["FC"] * nlayers}
    # irrigation
    method = force["method"] if "method" in force else rng.choice([0, 0, 1, 1, 2, 3, 4, 5])
    irr = {"irrigation_method": method}
    if method == 1:
        irr["SMT"] = [rng.choice([30, 50, 70, 90, 100]) for _ in range(4)]
    if method == 2:
        irr["IrrInterval"] = rng.choice([1, 3, 7, 10])
    if method == 3:
        n = rng.randint(0, 8); sch = {}
        for _ in range(n):
            d = start + pd.Timedelta(days=rng.randint(-20, (end - start).days + 20))
            sch[d.strftime("%Y/%m/%d")] = float(rng.choice([10, 25, 40, 60]))
        irr["schedule"] = sorted(sch.items())
        irr["schedule"] = [[d, x] for d, x in irr["schedule"]]
    if method == 4:
        irr["NetIrrSMT"] = rng.choice([50, 70, 80, 95])
    if method == 5:
        irr["depth"] = float(rng.choice([0, 2, 5, 12]))
    if method != 0:
        if rng.random() < 0.4: irr["AppEff"] = float(rng.choice([50, 75, 90]))
        if rng.random() < 0.3: irr["MaxIrr"] = float(rng.choice([5, 15, 40]))
        if rng.random() < 0.3: irr["MaxIrrSeason"] = float(rng.choice([0, 60, 200, 500]))
        if rng.random() < 0.2: irr["WetSurf"] = float(rng.choice([30, 60]))
    cfg["irr"] = irr
    # field management
    fld = {}
    bunds = force["bunds"] if "bunds" in force else rng.random() < 0.2
    if bunds:
        fld.update(bunds=True, z_bund=rng.choice([0.05, 0.1, 0.2]), bund_water=float(rng.choice([0, 0, 20, 60])))
    mul = force["mulches"] if "mulches" in force else rng.random() < 0.2
    if mul:
        fld.update(mulches=True, mulch_pct=rng.choice([0, 30, 80, 100]), f_mulch=rng.choice([0, 0.3, 0.5, 1.0]))
    if rng.random() < 0.1: fld["sr_inhb"] = True
    if rng.random() < 0.15:
        fld.update(curve_number_adj=True, curve_number_adj_pct=rng.choice([-20, -5, 10, 20]))
        cn_now = soil["kwargs"].get("cn", {"Clay": 77, "ClayLoam": 72, "Default": 61, "Loam": 61, "LoamySand": 46, "Sand": 46, "SandyClay": 77,
                                            "SandyClayLoam": 72, "SandyLoam": 46, "Silt": 61, "SiltClayLoam": 72, "SiltLoam": 61,
                                            "SiltClay": 72, "Paddy": 77, "ac_TunisLocal": 72}.get(soil["type"], 61))
        if soil["kwargs"].get("calc_cn"): cn_now = 77
        if cn_now * (1 + fld["curve_number_adj_pct"] / 100.0) > 100:
            fld["curve_number_adj_pct"] = 10
    cfg["field"] = fld or None
    cfg["fallow_field"] = force["fallow_field"] if "fallow_field" in force else ({"mulches": True, "mulch_pct": 60, "f_mulch": 0.5} if rng.random() < 0.1 else None)
    # groundwater
    gw = force["gw"] if "gw" in force else rng.random() < 0.2
    if gw:
        r_gw = rng.random()
        if r_gw < 0.4:
            cfg["gw"] = {"water_table": "Y", "method": "Constant", "dates": [cfg["start"]], "values": [rng.choice([0.4, 0.9, 1.5, 2.66, 5.0, 30.0])]}
        elif r_gw < 0.6:
            # step-wise table: several observations held constant in between (sorted by date)
            n = rng.randint(2, 4)
            ds = sorted({(start + pd.Timedelta(days=rng.randint(0, max(1, (end - start).days)))).strftime("%Y/%m/%d") for _ in range(n)} | {cfg["start"]})
            cfg["gw"] = {"water_table": "Y", "method": "Constant", "dates": ds, "values": [rng.choice([0.5, 0.8, 1.2, 2.0, 3.0]) for _ in ds]}
        else:
            n = rng.randint(2, 5)
            # observations inside the window and, sometimes, before the start / after the end
            ds = sorted({(start + pd.Timedelta(days=rng.randint(-150 if rng.random() < 0.4 else 0, (end - start).days + (200 if rng.random() < 0.4 else 0)))).strftime("%Y/%m/%d") for _ in range(n)} | {cfg["start"]})
            cfg["gw"] = {"water_table": "Y", "method": "Variable", "dates": ds, "values": [rng.choice([0.5, 1.0, 2.0, 3.5]) for _ in ds]}
    else:
        cfg["gw"] = None
    # CO2
    r = rng.random()
    if r < 0.7: cfg["co2"] = None
    elif r < 0.85: cfg["co2"] = {"constant_conc": True}
    else: cfg["co2"] = {"constant_conc": True, "current_concentration": float(rng.choice([300, 369.41, 450, 700, 2100]))}
    _more_dimensions(cfg, random.Random(rng.random()), force)
    return cfg


def _more_dimensions(cfg, rng, force):
    """further configuration dimensions, drawn from a separate stream so that the draws above are unchanged: a minimum rooting depth other
    than the catalogue's 0.3 m, a fully specified FALLOW field management (bunds, mulches, curve-number adjustment, runoff inhibition), and
    parameters of SWITCHED-OFF features set to non-default values in either field management (inert by C20)"""
    if "crop_kwargs" not in force and rng.random() < 0.15:
        cfg["crop"]["kwargs"]["Zmin"] = rng.choice([0.2, 0.4])
    if "fallow_field" not in force and rng.random() < 0.2:
        f = {}
        if rng.random() < 0.4: f.update(bunds=True, z_bund=rng.choice([0.05, 0.15]), bund_water=float(rng.choice([0, 0, 30])))
        if rng.random() < 0.4: f.update(mulches=True, mulch_pct=rng.choice([0, 40, 100]), f_mulch=rng.choice([0, 0.5, 1.0]))
        if rng.random() < 0.2: f["sr_inhb"] = True
        if rng.random() < 0.4: f.update(curve_number_adj=True, curve_number_adj_pct=rng.choice([-20, -5, 10]))
        cfg["fallow_field"] = f or None
    if "co2" not in force and cfg.get("co2") is None and rng.random() < 0.15:
        # a user-supplied CO2 object: the default table, or the user's own yearly series with level stretches, possibly ending
        # before the run does (the last value is then held)
        if rng.random() < 0.4:
            cfg["co2"] = {}
        else:
            y = pd.Timestamp(cfg["start"]).year - rng.choice([0, 1, 3]); ppm = float(rng.choice([340, 369.41, 400])); ser = []
            for _ in range(rng.randint(2, 7)):
                ser.append([y, ppm]); y += 1
                if rng.random() < 0.5: ppm = round(ppm + rng.choice([-8.0, 2.5, 10.0, 30.0]), 2)
            cfg["co2"] = {"series": ser}
    g = cfg.get("gw")
    if g and g.get("method") == "Variable" and len(g.get("dates", [])) >= 2 and rng.random() < 0.4:
        # a SLOWLY drifting table (well under 1 mm per day) that nevertheless travels decimetres over the run: across compartment centres,
        # into or out of the profile, past the depth beyond which field capacity is no longer adjusted
        base = rng.choice([0.6, 1.0, 1.45, 1.75, 2.2, 2.95]); rate = rng.choice([-1, 1]) * rng.choice([0.0004, 0.0007, 0.00095])
        d0 = pd.Timestamp(g["dates"][0])
        g["values"] = [round(max(0.3, base + rate * (pd.Timestamp(d) - d0).days), 4) for d in g["dates"]]
    for key in ("field", "fallow_field"):
        if key in force or rng.random() >= (0.6 if force.get("inert") else 0.2):
            continue
        f = dict(cfg.get(key) or {})
        if not f.get("mulches") and rng.random() < 0.6: f.update(mulch_pct=rng.choice([30, 80]), f_mulch=rng.choice([0.3, 0.9]))
        if not f.get("bunds") and rng.random() < 0.6: f.update(z_bund=rng.choice([0.1, 0.3]), bund_water=float(rng.choice([10, 25] if force.get("inert") else [0, 25])))
        if not f.get("curve_number_adj") and rng.random() < 0.6: f["curve_number_adj_pct"] = rng.choice([-30, -10, 15, 40])
        cfg[key] = f or None


# configurations known (DESIGN 7.4) to crash or hang for reasons unrelated to most properties; monitors that
# are not about C16 draw configurations through this filter so that one finding does not mask everything
def avoid_known_crashes(cfg):
    return cfg
