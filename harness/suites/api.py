"""Api correspondence: the extracted Api.v (the AquaCropModel wrapper as a state machine: run_model in both modes with
initialize_model / process_outputs, the three private flags, the array -> DataFrame conversion of the daily tables, the
five getters) against real call sequences on real AquaCropModel objects of /repo.

As in suites/clock.py the physics of a day is an oracle: the model side receives, per _initialize, the stream of
(crop_dead, crop_mature) observed after each day's processes in the same real run; everything else (which calls raise
what, what each getter returns, which rows exist, the flags, the clock) is computed by the extracted model.

After EVERY call the two sides are compared on: the canonical outcome of the call and the observable object state
(number of _initialize calls, __has_model_executed, __has_model_finished, __steps_are_finished, whether the tables are
DataFrames, model_is_finished, the rows written to the three daily tables (step, season, in-season?, dap), the summary
rows (season, step, date), time_step_counter, season_counter)."""
import collections
import numpy as np
import pandas as pd
from common import *
from l1 import Case
import sim
import aquacrop.core as core
from aquacrop.entities.crops.crop_params import crop_params

_ORIG_STEP = core.solution_single_time_step
STATS = {"on_finished_model": collections.Counter(), "ops": collections.Counter(), "outcomes": collections.Counter(), "outcomes_valid_stream": collections.Counter(), "streams": collections.Counter(),
         "dropped": collections.Counter(), "shape": collections.Counter()}

OPC = {"run": 0, "till": 1, "res": 2, "flux": 3, "sto": 4, "gro": 5, "info": 6}


class Unknown(Exception):
    pass


def exc_kind(e):
    s = str(e)
    if isinstance(e, ValueError):
        if s.startswith("num_steps must be"): return "VN"
        if s.startswith("You cannot get results"): return "VX"
        if s.startswith("Length of values (3) does not match length of index"): return "VL"
    if isinstance(e, AttributeError):
        if "'_weather'" in s: return "AW"
        if "'_clock_struct'" in s: return "AC"
        if "'_outputs'" in s: return "AO"
    info = sim.exc_info(e)
    if str(info.get("origin", "")).startswith(("update_time", "core.py")):
        if isinstance(e, IndexError): return "CI"
        if isinstance(e, KeyError): return "CK"
    raise Unknown("%s: %s @ %s" % (type(e).__name__, s[:120], info.get("last")))


def _arr(t):
    return np.asarray(t.values if isinstance(t, pd.DataFrame) else t, dtype=float)


def _mask(a):
    return np.nansum(np.abs(a), axis=1) > 0      # z_gw is NaN without a water table


def table_tokens(kind, t):
    a = _arr(t)
    return ["T", kind, str(int(_mask(a).sum())), tb(isinstance(t, pd.DataFrame))]


def view_tokens(m, ninit, start):
    g = lambda nm: bool(getattr(m, "_AquaCropModel__" + nm))
    toks = [str(ninit), tb(g("has_model_executed")), tb(g("has_model_finished")), tb(g("steps_are_finished"))]
    if not (hasattr(m, "_outputs") and hasattr(m, "_weather") and hasattr(m, "_clock_struct")):
        if hasattr(m, "_clock_struct") or hasattr(m, "_outputs"):
            return toks + ["HALF_INITIALISED"]
        return toks + ["F", "N"]
    o = m._outputs; cs = m._clock_struct
    frames = [isinstance(t, pd.DataFrame) for t in (o.water_flux, o.water_storage, o.crop_growth)]
    if len(set(frames)) != 1:
        return toks + ["MIXED_TABLE_KINDS"]
    toks += [tb(frames[0]), "S", tb(bool(cs.model_is_finished))]
    fl, wsr, gr = _arr(o.water_flux), _arr(o.water_storage), _arr(o.crop_growth)
    mk = _mask(wsr)
    if not (np.array_equal(mk, _mask(fl)) and np.array_equal(mk, _mask(gr))):
        return toks + ["ROW_SETS_DIFFER"]
    idx = [int(i) for i in np.nonzero(mk)[0]]
    toks.append(str(len(idx)))
    for i in idx:
        if int(wsr[i, 0]) != i or int(fl[i, 0]) != i or int(gr[i, 0]) != i:
            return toks + ["ROW_INDEX_DIFFERS"]
        toks += [str(i), str(int(fl[i, 1])), tb(bool(wsr[i, 1])), str(int(wsr[i, 2]))]
    fs = o.final_stats.values.tolist()
    toks.append(str(len(fs)))
    for row in fs:
        toks += [str(int(row[0])), str(int(row[3])), str(int((pd.Timestamp(row[2]) - start).days))]
    toks += [str(int(cs.time_step_counter)), str(int(cs.season_counter))]
    return toks


def clock_of(m):
    cs = m._clock_struct
    start = pd.Timestamp(cs.simulation_start_date)
    return {"n_steps": int(cs.n_steps), "plant": [int((pd.Timestamp(d) - start).days) for d in cs.planting_dates],
            "harv": [int((pd.Timestamp(d) - start).days) for d in cs.harvest_dates], "off": bool(cs.sim_off_season)}, start


def observe(cfg, ops):
    m = sim.build_model(cfg)
    streams = []; clocks = []; starts = []
    orig_init = m._initialize

    def init_wrapped():
        orig_init()
        c, s0 = clock_of(m)
        clocks.append(c); starts.append(s0); streams.append([])

    m._initialize = init_wrapped

    def wrapped(init_cond, param_struct, clock_struct, weather_step, outputs):
        r = _ORIG_STEP(init_cond, param_struct, clock_struct, weather_step, outputs)
        nc = r[0]
        streams[-1].append((bool(nc.crop_dead), bool(nc.crop_mature)))
        return r

    core.solution_single_time_step = wrapped
    exp = []; kinds = []; onfin = []
    try:
        for op in ops:
            fin_before = bool(getattr(getattr(m, "_clock_struct", None), "model_is_finished", False))
            try:
                if op[0] == "run":
                    r = m.run_model(num_steps=op[1], initialize_model=op[2], process_outputs=op[3])
                    out = ["R", tb(r is True)]
                elif op[0] == "till":
                    r = m.run_model(till_termination=True, initialize_model=op[1])
                    out = ["R", tb(r is True)]
                elif op[0] == "res":
                    r = m.get_simulation_results()
                    out = ["NF"] if r is False else ["S", str(len(r))]
                elif op[0] == "flux":
                    out = table_tokens("flux", m.get_water_flux())
                elif op[0] == "sto":
                    out = table_tokens("storage", m.get_water_storage())
                elif op[0] == "gro":
                    out = table_tokens("growth", m.get_crop_growth())
                else:
                    r = m.get_additional_information()
                    out = ["I", "T", tb(r["has_model_finished"])]
            except Unknown:
                raise
            except Exception as e:
                if not clocks and op[0] in ("run", "till") and op[-2 if op[0] == "run" else -1] and not hasattr(m, "_weather"):
                    return {"init_error": sim.exc_info(e), "first": len(exp) == 0}
                out = ["X", exc_kind(e)]
            onfin.append(fin_before)
            kinds.append(out[0] + (":" + out[1] if out[0] in ("X", "T") else "") + (":frame" if out[0] == "T" and out[3] == "T" else ""))
            exp += out + view_tokens(m, len(clocks), starts[-1] if starts else None)
            if out[0] == "X" and out[1] in ("CI", "CK"):
                break       # the model keeps the state before the failing step; the code keeps the day's row: stop comparing
    finally:
        core.solution_single_time_step = _ORIG_STEP
    return {"clocks": clocks, "streams": streams, "exp": exp, "kinds": kinds, "nops": len(kinds), "onfin": onfin}


def op_tokens(op):
    if op[0] == "run":
        return ["0", str(op[1]), tb(op[2]), tb(op[3])]
    if op[0] == "till":
        return ["1", tb(op[1])]
    return [str(OPC[op[0]])]


def job(payload):
    cfg, ops, stream = payload
    try:
        o = observe(cfg, ops)
    except Unknown as e:
        return {"dropped": "other_exception", "why": str(e), "cfg": cfg, "ops": ops}
    if "init_error" in o:
        if o["first"] and stream == "malformed":
            nd = (pd.Timestamp(cfg["end"]) - pd.Timestamp(cfg["start"])).days + 1
            line = " ".join([str(nd), "0", "0", tb(bool(cfg.get("off_season"))), "0", str(len(ops))] + sum((op_tokens(p) for p in ops), []))
            return {"line": line, "exp": ["N"], "cfg": cfg, "ops": ops, "kinds": ["init_raises"], "stream": "malformed", "malformed": True,
                    "init_error": o["init_error"]}
        return {"dropped": "init_raises", "why": o["init_error"], "cfg": cfg, "ops": ops}
    clocks = o["clocks"]
    if any(c != clocks[0] for c in clocks[1:]):
        return {"dropped": "clock_changed_between_initialisations", "why": clocks, "cfg": cfg, "ops": ops}
    used = ops[:o["nops"]]
    if clocks:
        c = clocks[0]
        toks = [str(c["n_steps"]), str(len(c["plant"]))] + [str(x) for x in c["plant"]] + [str(len(c["harv"]))] + [str(x) for x in c["harv"]] + [tb(c["off"])]
    else:
        toks = ["6", "1", "0", "1", "100", "F"]     # never initialised: any clock
    toks.append(str(len(o["streams"])))
    for s in o["streams"]:
        toks.append(str(len(s)))
        for d, mt in s:
            toks += [tb(d), tb(mt)]
    toks.append(str(len(used)))
    for p in used:
        toks += op_tokens(p)
    exp = ["S", str(len(used))] + o["exp"]
    return {"line": " ".join(toks), "exp": exp, "cfg": cfg, "ops": used, "kinds": o["kinds"], "stream": stream,
            "clock": clocks[0] if clocks else None, "onfin": o["onfin"], "inits": len(clocks), "steps": sum(len(s) for s in o["streams"])}


# ---------------------------------------------------------------------------------------------------------------
def api_cfg(rng, two_seasons=False, no_season=False):
    """small real models: window 5-60 days with one (partial or early-harvested) season, or two short seasons a year apart"""
    single = [c for c in sim.CROPS if c not in sim.YLDWC0 and crop_params[c].get("CalendarType") == 1]
    crop = rng.choice(single)
    cfg = sim.gen_config(rng, crop=crop, seasons=1, start_mode="at", end_mode="mid", soil_type=rng.choice(["SandyLoam", "Clay", "Loam"]),
                         method=rng.choice([0, 0, 2]), gw=False, bunds=False, mulches=False, off_season=rng.random() < 0.5)
    cfg["co2"] = None; cfg["field"] = None; cfg["fallow_field"] = None; cfg["iwc"] = None
    cfg["soil"] = {"type": cfg["soil"]["type"], "kwargs": {}}
    cfg["crop"]["kwargs"] = {}
    pdate = pd.Timestamp(cfg["start"])
    start = pdate - pd.Timedelta(days=rng.choice([0, 0, 1, 3]))
    if no_season:
        start = pdate + pd.Timedelta(days=rng.choice([1, 4]))       # the only planting date of the window lies before its start
        end = start + pd.Timedelta(days=rng.randint(5, 40))
    elif two_seasons:
        h = pdate + pd.Timedelta(days=rng.randint(4, 25))
        cfg["crop"]["harvest_date"] = "%02d/%02d" % (h.month, h.day)
        end = pd.Timestamp(year=pdate.year + 1, month=pdate.month, day=pdate.day) + pd.Timedelta(days=rng.randint(3, 30))
    else:
        end = start + pd.Timedelta(days=rng.randint(5, 60))
        if rng.random() < 0.45:      # early harvest inside (or just outside) the window: a summary row, early termination
            h = pdate + pd.Timedelta(days=rng.randint(2, 45))
            cfg["crop"]["harvest_date"] = "%02d/%02d" % (h.month, h.day)
    if end.month == 2 and end.day == 29:
        end = end - pd.Timedelta(days=1)
    cfg["start"] = start.strftime("%Y/%m/%d"); cfg["end"] = end.strftime("%Y/%m/%d")
    if rng.random() < 0.15:
        cfg["weather"]["ops"] = [["scale", "Precipitation", 0.0]]
        cfg["iwc"] = {"wc_type": "Pct", "method": "Layer", "depth_layer": [1], "value": [0]}
    return cfg


GETTERS = ["res", "flux", "sto", "gro", "info"]


def valid_ops(rng):
    """one initialising call, then run_model(num_steps=k>=1, initialize_model=False) calls interleaved with getters"""
    n = rng.randint(3, 25)
    first = ("till", True) if rng.random() < 0.05 else ("run", rng.choice([1, 1, 2, 3, 5, 10, 30]), True, False)
    ops = [first]
    while len(ops) < n:
        r = rng.random()
        if r < 0.58:
            ops.append(("run", rng.choice([30, 100, 500]) if rng.random() < 0.06 else rng.choice([1, 1, 1, 2, 2, 3, 3, 5, 7, 10]), False, False))
        elif r < 0.60:
            ops.append(("till", False))
        else:
            ops.append((rng.choice(GETTERS),))
    return ops


def adversarial_ops(rng):
    """anything: calls before any run, re-initialisation in the middle, process_outputs=True, num_steps <= 0, calls after termination"""
    n = rng.randint(3, 25)
    ops = []
    p_init = rng.choice([0.1, 0.25, 0.5]); p_po = rng.choice([0.0, 0.1, 0.3, 0.6])
    if rng.random() < 0.6:
        ops.append(("run", rng.choice([1, 2, 3, 10, 100]), True, rng.random() < p_po))
    while len(ops) < n:
        r = rng.random()
        if r < 0.5:
            ops.append(("run", rng.choice([-3, 0, 0, 1, 1, 1, 2, 3, 5, 10, 100]), rng.random() < p_init, rng.random() < p_po))
        elif r < 0.62:
            ops.append(("till", rng.random() < max(p_init, 0.3)))
        else:
            ops.append((rng.choice(GETTERS),))
    return ops


def finished_ops(rng):
    """a finishing call first, then every kind of call on the finished object (all option combinations of run_model)"""
    n = rng.randint(4, 25)
    r = rng.random()
    first = ("till", True) if r < 0.5 else ("run", rng.choice([400, 1000]), True, rng.random() < 0.3)
    ops = [first]
    p_init = rng.choice([0.0, 0.05, 0.2])
    while len(ops) < n:
        r = rng.random()
        if r < 0.55:
            ops.append(("run", rng.choice([-3, 0, 1, 1, 2, 5, 100]), rng.random() < p_init, rng.random() < 0.5))
        elif r < 0.65:
            ops.append(("till", rng.random() < p_init))
        else:
            ops.append((rng.choice(GETTERS),))
    return ops


# the witnesses of ApiP.v (refutations and examples), replayed on real models
DIRECTED = [
    [("run", 2, True, True), ("run", 2, False, False), ("till", False), ("info",), ("flux",), ("res",)],            # process_outputs in the middle
    [("till", True), ("run", 1, False, False), ("res",), ("till", False), ("info",), ("sto",)],                    # a call after termination
    [("till", True), ("run", 0, True, False), ("res",), ("info",), ("flux",)],                                    # stale finished flag
    [("run", 1, True, True), ("till", True), ("run", 3, True, False), ("flux",), ("info",)],                      # sticky flag survives _initialize
    [("res",), ("info",), ("flux",), ("run", 0, False, False), ("run", 1, False, False), ("till", False), ("gro",)],   # before any initialisation
    [("run", 2, True, False), ("run", 1, False, False), ("run", 5, False, False), ("run", 1000, False, False), ("res",), ("info",), ("flux",)],
    [("run", 1000, True, True), ("res",), ("info",), ("gro",), ("run", 2, True, False), ("info",), ("res",), ("gro",)],   # finishing call with process_outputs, then re-initialise
    [("run", 0, True, True), ("run", -1, False, True), ("run", 1, False, True), ("run", 1, False, True), ("sto",)],
    # calls on a finished object, every option combination (repair b7ac20d: they return True and perform no step)
    [("till", True), ("run", 1, False, False), ("run", 5, False, True), ("run", 0, False, False), ("run", -1, False, True), ("info",), ("res",),
     ("flux",), ("till", False), ("run", 1, False, False), ("run", 2, True, True), ("run", 1, False, False), ("gro",)],
    [("run", 1000, True, False), ("run", 3, False, True), ("run", 3, False, False), ("sto",), ("run", 3, True, False), ("run", 1000, False, False),
     ("run", 1, False, True), ("res",), ("info",)],
    [("till", True), ("run", 0, True, True), ("run", 1, False, True), ("run", 1, False, False), ("flux",), ("info",)],
    [("run", 1000, True, True), ("run", 1, False, True), ("run", 1, False, False), ("till", False), ("run", 2, True, False), ("info",), ("flux",)],
]


def gen(rng, n):
    for k in STATS.values():
        k.clear()
    payloads = []
    n_dir = min(len(DIRECTED) * 3, max(len(DIRECTED), n // 25))
    n_mal = max(2, n // 60)
    for i in range(n_dir):
        payloads.append((api_cfg(rng, two_seasons=(i % 5 == 4)), DIRECTED[i % len(DIRECTED)], "directed"))
    for i in range(n_mal):
        payloads.append((api_cfg(rng, no_season=True), [("run", 2, True, False), ("flux",), ("till", False)], "malformed"))
    while len(payloads) < int(n * 1.08) + 4:
        two = rng.random() < 0.2
        r = rng.random()
        if r < 0.55:
            payloads.append((api_cfg(rng, two_seasons=two), valid_ops(rng), "valid"))
        elif r < 0.85:
            payloads.append((api_cfg(rng, two_seasons=two), adversarial_ops(rng), "adversarial"))
        else:
            payloads.append((api_cfg(rng, two_seasons=two), finished_ops(rng), "finished"))
    res = sim.pmap(job, payloads, timeout=300)
    count = 0
    for r in res:
        if "line" not in r:
            STATS["dropped"][r.get("dropped") or ("hang" if r.get("hang") else "harness_error")] += 1
            if r.get("harness_error"):
                raise RuntimeError("harness error: " + r["harness_error"])
            continue
        if count >= n:
            break
        count += 1
        STATS["streams"][r["stream"]] += 1
        for p in r["ops"]:
            STATS["ops"][p[0] + ("" if p[0] not in ("run", "till") else (":init" if p[-2 if p[0] == "run" else -1] else "") +
                                 (":po" if p[0] == "run" and p[3] else "") + (":k<1" if p[0] == "run" and p[1] < 1 else ""))] += 1
        for p_, k_, f_ in zip(r["ops"], r["kinds"], r.get("onfin", [])):
            if f_ and p_[0] in ("run", "till"):     # the call was made on an object whose clock was already finished
                STATS["on_finished_model"]["%s%s -> %s" % (p_[0], tuple(("k>=1" if x >= 1 else "k<1") if not isinstance(x, bool) else x for x in p_[1:]), k_)] += 1
        for k in r["kinds"]:
            STATS["outcomes"][k] += 1
            if r["stream"] == "valid":
                STATS["outcomes_valid_stream"][k] += 1
        if r.get("clock"):
            STATS["shape"]["seasons=%d" % len(r["clock"]["plant"])] += 1
            STATS["shape"]["off_season=%s" % r["clock"]["off"]] += 1
            STATS["shape"]["inits=%s" % min(r["inits"], 3)] += 1
        yield Case("api_seq", r["line"], r["exp"], {"cfg": r["cfg"], "ops": r["ops"], "stream": r["stream"], "outcomes": r["kinds"]},
                   "malformed" if r.get("malformed") else "valid")
