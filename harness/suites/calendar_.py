"""L1 suite for the calendar unit (Init/Calendar.v).

(D) `gen_dates`: `days_from_civil` / `civil_from_days` / `valid_date` / `is_leap` against `datetime.date` and pandas for EVERY
    day of pandas' nanosecond Timestamp range 1677-09-22 .. 2262-04-10 (213 503 days), a sample of the whole `datetime` range
    0001-01-01 .. 9999-12-31, and every (y, m, d) with m in 0..13, d in 0..32 of selected years (validity).
(S) `gen`: tuples (start, end, weather first/last day, planting mm/dd, harvest mm/dd | None, MaturityCD) through the REAL
    setters of `AquaCropModel`, `read_clock_parameters`, `read_weather_inputs`, `read_model_parameters` (real `Crop`, real
    `Soil`); a share of them through the real `AquaCropModel(...)._initialize()`.  Compared: `n_steps`, planting / harvest
    dates as offsets, `n_seasons`, `season_counter`, or the exception class + raise site.
    Further streams: `default_harvest`, `cal_derived` (calendar-day mode of `compute_crop_calendar`), `gdd_calendar`
    (thermal mode through the real `compute_crop_calendar` with synthetic temperatures), `clip` (weather clipping).
"""
import collections, datetime, calendar as _pycal
import numpy as np
import pandas as pd
from common import *
from l1 import Case

install_libm_proxy()
import sim
from aquacrop.core import AquaCropModel
from aquacrop.entities.soil import Soil
from aquacrop.entities.crop import Crop
from aquacrop.entities.inititalWaterContent import InitialWaterContent
from aquacrop.entities.crops.crop_params import crop_params
from aquacrop.initialize.read_clocks_parameters import read_clock_parameters
from aquacrop.initialize.read_weather_inputs import read_weather_inputs
from aquacrop.initialize.read_model_parameters import read_model_parameters
from aquacrop.initialize.compute_crop_calendar import compute_crop_calendar

COV = collections.Counter()      # branch coverage of the last gen() call

ORD_MIN = datetime.date(1677, 9, 22).toordinal()
ORD_MAX = datetime.date(2262, 4, 10).toordinal()

SITE = {
    ("ValueError", "sim_start_time"): "ValueError_BadDate",
    ("ValueError", "sim_end_time"): "ValueError_BadDate",
    ("ValueError", "check_max_simulation_days"): "ValueError_TooLong",
    ("IndexError", "read_clock_parameters"): "IndexError_TimeSpan",
    ("ValueError", "read_weather_inputs"): "ValueError_Uncovered",
    ("DateParseError", "read_model_parameters"): "DateParseError_MonthDay",
    ("DateParseError", "compute_crop_calendar"): "DateParseError_MonthDay",
    ("IndexError", "read_model_parameters"): "IndexError_NoPlanting",
}


def err_token(e):
    info = sim.exc_info(e)
    fn = (info["origin"] or "?:?").split(":")[1]
    name = type(e).__name__
    if name == "AssertionError" and fn == "compute_crop_calendar":
        return "AssertionError_NotEnoughGDD" if "not enough" in str(e) else "AssertionError_OverAYear"
    return SITE.get((name, fn), name + "@" + fn)


def dstr(d):
    return "%04d/%02d/%02d" % d


def mdstr(md):
    return "%02d/%02d" % md


# ----------------------------------------------------------------------------------------------
# (D) dates
def gen_dates(rng, n):
    """exhaustive over the pandas-ns range (n is only used for the size of the samples outside it)"""
    idx = pd.date_range("1677-09-22", "2262-04-10", freq="D")
    assert len(idx) == ORD_MAX - ORD_MIN + 1
    ys, ms, ds = idx.year.values, idx.month.values, idx.day.values
    leap = idx.is_leap_year
    for i in range(len(idx)):
        o = ORD_MIN + i
        dt = datetime.date.fromordinal(o)
        y, m, d = dt.year, dt.month, dt.day
        assert (y, m, d) == (int(ys[i]), int(ms[i]), int(ds[i])) and dt.toordinal() == o
        yield Case("date", "%d %d %d %d" % (o, y, m, d),
                   [str(y), str(m), str(d), str(o), "T", tb(bool(leap[i]))], None)
    # the rest of datetime's range
    k = max(2000, n)
    for i in range(k):
        o = rng.randint(1, datetime.date.max.toordinal())
        if i < 4:
            o = [1, 2, datetime.date.max.toordinal(), datetime.date.max.toordinal() - 1][i]
        dt = datetime.date.fromordinal(o)
        yield Case("date", "%d %d %d %d" % (o, dt.year, dt.month, dt.day),
                   [str(dt.year), str(dt.month), str(dt.day), str(o), "T", tb(_pycal.isleap(dt.year))], None)
    # validity: every (m, d) in 0..13 x 0..32 for selected years, against datetime.date, strptime and pandas
    from aquacrop.core import _sim_date_format_is_correct
    for y in [1600, 1700, 1900, 1990, 1992, 2000, 2023, 2024, 2100, 2400, 1, 9999, 0, 10000]:
        for m in range(0, 14):
            for d in range(0, 33):
                dim = [0, 31, 29 if _pycal.isleap(y) else 28, 31, 30, 31, 30, 31, 31, 30, 31, 30, 31]
                v = (1 <= m <= 12) and (1 <= d <= dim[m])          # independent oracle for years outside datetime's range
                s = "%04d/%02d/%02d" % (y, m, d)
                ok2 = bool(_sim_date_format_is_correct(s))
                if 1 <= y <= 9999:
                    try:
                        datetime.date(y, m, d); ok = True
                    except ValueError:
                        ok = False
                    assert ok == v and ok2 == ok, s
                else:
                    assert not ok2, s
                if 1000 <= y <= 9999:
                    try:
                        t = pd.to_datetime(s); okp = (t.year, t.month, t.day) == (y, m, d)
                    except ValueError:
                        okp = False
                    assert okp == v, s
                yield Case("valid", "%d %d %d" % (y, m, d), [tb(v), tb(ok2)], None)
    for i in range(k):
        a = (rng.randint(1990, 1993), rng.randint(1, 12), rng.randint(1, 28))
        b = (rng.randint(1990, 1993), rng.randint(1, 12), rng.randint(1, 28)) if rng.random() < 0.7 else a
        yield Case("date_lt", "%d %d %d %d %d %d" % (a + b), [tb(datetime.date(*a) < datetime.date(*b))], None)


# ----------------------------------------------------------------------------------------------
# (S) season lists
_SOIL = None
_DUMMY_W = {}


def the_soil():
    global _SOIL
    if _SOIL is None:
        _SOIL = Soil("SandyLoam", dz=[0.1] * 6 + [0.3] * 7)     # 2.7 m: no deepening for any crop used here
    return _SOIL


def weather_frame(w0, w1):
    """daily frame from ordinal w0 to w1 (constant values; the calendar-day path does not read them)"""
    key = (w0, w1)
    if key not in _DUMMY_W:
        if len(_DUMMY_W) > 64:
            _DUMMY_W.clear()
        dates = pd.date_range(pd.Timestamp(datetime.date.fromordinal(w0)), periods=w1 - w0 + 1, freq="D") if w1 >= w0 else pd.DatetimeIndex([])
        n = len(dates)
        _DUMMY_W[key] = pd.DataFrame({"MinTemp": np.full(n, 10.0), "MaxTemp": np.full(n, 25.0), "Precipitation": np.zeros(n),
                                      "ReferenceET": np.full(n, 4.0), "Date": dates})
    return _DUMMY_W[key]


def make_crop(t):
    kw = {}
    if t["mat"] is not None:
        kw["MaturityCD"] = t["mat"]
    return Crop(t["crop"], planting_date=t["pl"], harvest_date=t["hv"], **kw)


def py_init(t):
    """the real code; returns the expected tokens"""
    try:
        if t["full"]:
            m = AquaCropModel(sim_start_time=t["start"], sim_end_time=t["end"], weather_df=weather_frame(t["w0"], t["w1"]).copy(),
                              soil=Soil("SandyLoam"), crop=make_crop(t), initial_water_content=InitialWaterContent(value=["FC"]))
            m._initialize()
            cs = m._clock_struct
        else:
            obj = AquaCropModel.__new__(AquaCropModel)
            obj.sim_start_time = t["start"]          # the real property setters
            obj.sim_end_time = t["end"]
            cs = read_clock_parameters(obj.sim_start_time, obj.sim_end_time, False)
            w = read_weather_inputs(cs, weather_frame(t["w0"], t["w1"]))
            cs, ps = read_model_parameters(cs, the_soil(), make_crop(t), w)
            assert len(w) == cs.n_steps
    except Exception as e:
        return ["N", err_token(e)]
    start = pd.Timestamp(cs.simulation_start_date)
    pl = [int((pd.Timestamp(d) - start).days) for d in cs.planting_dates]
    hv = [int((pd.Timestamp(d) - start).days) for d in cs.harvest_dates]
    if not (len(pl) == len(hv) == cs.n_seasons) or len(cs.time_span) != cs.n_steps:
        return ["BAD"]
    out = ["S", str(int(cs.n_steps)), str(len(pl))]
    for p, h in zip(pl, hv):
        out += [str(p), str(h)]
    out.append(str(int(cs.season_counter)))
    return out


def job(t):
    return py_init(t)


def valid_md(rng, allow_feb29=False):
    m = rng.randint(1, 12)
    d = rng.randint(1, _pycal.monthrange(1992 if allow_feb29 else 1990, m)[1])
    return (m, d)


def shift_md(md, k, year=1991):
    d = datetime.date(year, md[0], md[1]) + datetime.timedelta(days=k)
    return (d.month, d.day)


def gen_tuple(rng):
    """one (start, end, weather, planting, harvest, maturity) tuple + branch tags"""
    tags = []
    r = rng.random()
    # start date
    if r < 0.75:
        sy = rng.randint(1950, 2050)
    elif r < 0.93:
        sy = rng.randint(1678, 2200)
    else:
        sy = rng.randint(1000, 9000)
    r = rng.random()
    if r < 0.12:
        sy = sy - sy % 4
        smd = (2, 29) if _pycal.isleap(sy) else (2, 28)
    elif r < 0.30:
        smd = rng.choice([(1, 1), (12, 31), (2, 28), (3, 1), (1, 2), (12, 30)])
    else:
        smd = valid_md(rng)
    s = datetime.date(sy, *smd)
    # window length
    r = rng.random()
    if r < 0.03:
        n = 1; tags.append("win1")
    elif r < 0.06:
        n = 2; tags.append("win2")
    elif r < 0.08:
        n = rng.randint(-400, 0); tags.append("win<=0")
    elif r < 0.18:
        n = rng.randint(3, 60); tags.append("win_short")
    elif r < 0.40:
        n = rng.randint(61, 400); tags.append("win_1y")
    elif r < 0.85:
        n = rng.randint(366, 365 * 6); tags.append("win_years")
    elif r < 0.97:
        n = rng.randint(365 * 6, 365 * 50); tags.append("win_long")
    else:
        ey = sy + rng.choice([579, 580, 581, 582, 600])
        if ey > 9990:
            ey = 9990
        e = datetime.date(ey, *valid_md(rng)); n = (e - s).days + 1; tags.append("win_580")
    try:
        e = s + datetime.timedelta(days=n - 1)
    except OverflowError:
        e = s + datetime.timedelta(days=10)
    if rng.random() < 0.10 and e.year % 4 == 0 and _pycal.isleap(e.year) and e > datetime.date(e.year, 2, 29) + datetime.timedelta(days=0) and (e - s).days > 400:
        e = datetime.date(e.year, 2, 29); tags.append("end_feb29")
    elif rng.random() < 0.08 and (e - s).days > 400:
        e = datetime.date(e.year, *rng.choice([(1, 1), (12, 31), (2, 28), (3, 1)]))
    # planting day
    r = rng.random()
    if r < 0.10:
        pl = (s.month, s.day); tags.append("pl=start")
    elif r < 0.18:
        pl = shift_md((s.month, s.day), rng.choice([-1, 1, -2, 2, 7, -7]), s.year); tags.append("pl~start")
    elif r < 0.26:
        pl = (e.month, e.day); tags.append("pl=end")
    elif r < 0.34:
        pl = shift_md((e.month, e.day), rng.choice([-1, 1, -2, 2]), e.year); tags.append("pl~end")
    elif r < 0.42:
        pl = rng.choice([(1, 1), (12, 31), (2, 28), (3, 1), (12, 1)]); tags.append("pl_special")
    elif r < 0.45:
        pl = (2, 29); tags.append("pl_feb29")
    else:
        pl = valid_md(rng)
    # harvest
    r = rng.random()
    mat = None
    crop = rng.choice(["Maize", "Wheat", "Potato", "Tomato", "Barley", "Quinoa", "Tef", "SugarCane", "Cassava"])
    if r < 0.5:
        hv = None
        r2 = rng.random()
        if r2 < 0.55:
            mat = rng.randint(20, 330)
        elif r2 < 0.75:
            mat = rng.randint(331, 340); tags.append("mat~335")     # MaturityCD + 30 around one year
        elif r2 < 0.85:
            mat = rng.randint(341, 800); tags.append("mat_long")
        # else: the catalogue value
        tags.append("hv_none")
    else:
        r2 = rng.random()
        if r2 < 0.12:
            hv = pl; tags.append("hv=pl")
        elif r2 < 0.30 and pl != (2, 29):
            hv = shift_md(pl, rng.choice([-1, 1, -2, 2, 30, -30])); tags.append("hv~pl")
        elif r2 < 0.34:
            hv = (2, 29); tags.append("hv_feb29")
        elif r2 < 0.42:
            hv = rng.choice([(1, 1), (12, 31), (2, 28), (3, 1)])
        else:
            hv = valid_md(rng)
        tags.append("hv_explicit")
    # weather coverage
    so, eo = s.toordinal(), e.toordinal()
    r = rng.random()
    if r < 0.55:
        w0, w1 = so, max(eo, so)
    elif r < 0.92:
        w0, w1 = so - rng.randint(0, 400), max(eo, so) + rng.randint(0, 400)
    elif r < 0.96:
        w0, w1 = so + rng.randint(1, 3), max(eo, so) + 5; tags.append("uncov_start")
    else:
        w0, w1 = so - 5, max(eo, so + 1) - rng.randint(1, 3); tags.append("uncov_end")
        if w1 < w0:
            w1 = w0
    w0 = max(w0, 1)
    t = {"start": dstr((s.year, s.month, s.day)), "end": dstr((e.year, e.month, e.day)), "w0": w0, "w1": w1,
         "pl": mdstr(pl), "hv": mdstr(hv) if hv else None, "mat": mat, "crop": crop, "full": False}
    num = {"st": (s.year, s.month, s.day), "en": (e.year, e.month, e.day), "pl": pl, "hv": hv}
    return t, num, tags


def init_line(num, w0, w1, mat):
    hv = num["hv"]
    return "%d %d %d %d %d %d %d %d %d %d %s %d" % (num["st"] + num["en"] + (w0, w1) + num["pl"] + (("S %d %d" % hv) if hv else "N", mat))


def gen(rng, n):
    COV.clear()
    n_s = n                                  # S tuples; the other streams come on top
    tuples = []
    for i in range(n_s):
        t, num, tags = gen_tuple(rng)
        mat = t["mat"] if t["mat"] is not None else int(crop_params[t["crop"]]["MaturityCD"])
        # a share through the whole real initialisation (windows of moderate length only: it builds the full model)
        if rng.random() < 0.04 and "win_long" not in tags and "win_580" not in tags:
            t["full"] = True; tags.append("full_init")
            t["crop"] = rng.choice(["Wheat", "Potato", "Tomato", "Barley", "Quinoa", "Tef"])    # Zmax <= 1.5: little deepening
            mat = t["mat"] if t["mat"] is not None else int(crop_params[t["crop"]]["MaturityCD"])
        tuples.append((t, num, tags, mat))
    # malformed start / end dates
    n_m = max(20, n // 50)
    for i in range(n_m):
        t, num, tags = gen_tuple(rng)
        which = rng.choice(["st", "en"])
        y, m, d = num[which]
        bad = rng.choice([(y, 13, d), (y, 0, d), (y, m, 0), (y, m, 32), (y, 2, 30), (y | 1, 2, 29), (y, 4, 31), (0, m, min(d, 28)), (10000, m, min(d, 28)), (y, 11, 31)])
        num[which] = bad
        t["start" if which == "st" else "end"] = dstr(bad)
        mat = t["mat"] if t["mat"] is not None else int(crop_params[t["crop"]]["MaturityCD"])
        tuples.append((t, num, tags + ["malformed"], mat))
    results = sim.pmap(job, [x[0] for x in tuples], timeout=300)
    for (t, num, tags, mat), exp in zip(tuples, results):
        if isinstance(exp, dict):
            exp = ["HARNESS", str(exp)[:200]]
        for tg in tags:
            COV[tg] += 1
        if exp[0] == "S":
            k = int(exp[2])
            COV["ok"] += 1
            COV["seasons=%s" % (k if k < 3 else "3+")] += 1
            COV["counter=%s" % exp[-1]] += 1
            if k and int(exp[4]) - int(exp[3]) > 366:
                COV["season>1y"] += 1
            pls = [int(exp[3 + 2 * j]) for j in range(k)]; hvs = [int(exp[4 + 2 * j]) for j in range(k)]
            if any(h >= int(exp[1]) for h in hvs):
                COV["harvest_beyond_end"] += 1
            if num["hv"] is not None and num["hv"] <= num["pl"] or (num["hv"] is None and any(datetime.date.fromordinal(datetime.date(*num["st"]).toordinal() + p).year != datetime.date.fromordinal(datetime.date(*num["st"]).toordinal() + h).year for p, h in zip(pls, hvs))):
                COV["new_year_season"] += 1
            if pls[0] > 0 and datetime.date(num["st"][0], 1, 1).toordinal() + 0 <= 0:
                pass
            if datetime.date.fromordinal(datetime.date(*num["st"]).toordinal() + pls[0]).year > num["st"][0]:
                COV["first_season_shifted"] += 1
        else:
            COV[" ".join(exp[:2])] += 1
        yield Case("cal_init", init_line(num, t["w0"], t["w1"], mat), exp, {"t": t, "tags": tags},
                   "malformed" if "malformed" in tags else "valid")
    # default_harvest
    for i in range(max(50, n // 20)):
        pl = valid_md(rng)
        mat = rng.choice([rng.randint(0, 400), rng.randint(300, 370), rng.randint(0, 1500)])
        harv = pd.to_datetime("1990/" + mdstr(pl)) + np.timedelta64(int(mat + 30), "D")
        COV["default_harvest"] += 1
        yield Case("default_harvest", "%d %d %d" % (pl + (mat,)), [str(harv.month), str(harv.day)], None)
    # weather clipping
    for i in range(max(20, n // 100)):
        w0 = rng.randint(700000, 730000); ln = rng.randint(1, 60)
        s = w0 + rng.randint(0, ln - 1); e = min(w0 + ln - 1, s + rng.randint(1, 40))
        w = weather_frame(w0, w0 + ln - 1)

        class CS:
            pass
        cs = CS(); cs.simulation_start_date = pd.Timestamp(datetime.date.fromordinal(s)); cs.simulation_end_date = pd.Timestamp(datetime.date.fromordinal(e))
        out = read_weather_inputs(cs, w)
        ords = [pd.Timestamp(x).toordinal() for x in out.Date]
        COV["clip"] += 1
        yield Case("clip", "%d %d %d %s" % (s, e, ln, " ".join(str(w0 + j) for j in range(ln))), [str(len(ords))] + [str(x) for x in ords], None)
    # compute_crop_calendar
    yield from gen_crop_calendar(rng, max(100, n // 8))


# ----------------------------------------------------------------------------------------------
# compute_crop_calendar: calendar-day mode (derived counts) and thermal mode (cumulative-GDD searches)
def crop_tokens(det, ct, em, sen, mat, his, flo, yf, cc0, ccx, cgc):
    return "%d %d " % (det, ct) + " ".join(hx(x) for x in (em, sen, mat, his, flo, yf, cc0, ccx, cgc))


def gen_crop_calendar(rng, n):
    cd = [k for k, v in sorted(crop_params.items()) if v.get("CalendarType") == 1]
    gd = [k for k, v in sorted(crop_params.items()) if v.get("CalendarType") == 2 and v.get("MaturityCD") is not None]
    span = pd.date_range("2000-01-01", "2003-12-31", freq="D")
    for i in range(n):
        if i % 2 == 0:
            # calendar-day mode
            name = rng.choice(cd)
            kw = {}
            if rng.random() < 0.7:
                kw = {"PlantPop": rng.randint(20000, 2000000), "SeedSize": rng.choice([1.5, 5.0, 6.5, 15.0]), "CCx": round(rng.uniform(0.5, 0.99), 2),
                      "CGC_CD": round(rng.uniform(0.03, 0.3), 4), "EmergenceCD": rng.randint(1, 30), "HIstartCD": rng.randint(30, 150),
                      "FloweringCD": rng.randint(1, 41), "YldFormCD": rng.randint(10, 100), "Determinant": rng.choice([0, 1]), "CropType": rng.choice([1, 2, 3])}
            c = Crop(name, planting_date="05/01", harvest_date="10/30", **kw)
            args = (int(c.Determinant), int(c.CropType), c.EmergenceCD, c.SenescenceCD, c.MaturityCD, c.HIstartCD, c.FloweringCD, c.YldFormCD,
                    c.CC0, c.CCx, c.CGC_CD)
            c = compute_crop_calendar(c, pd.to_datetime(["2000/05/01"]), pd.Timestamp("2000-01-01"), pd.Timestamp("2003-12-31"), span, None)
            fe = c.FloweringEndCD
            exp = [hx(c.CanopyDevEnd), str(int(c.Canopy10Pct)), str(int(c.MaxCanopy)), hx(c.HIend)] + (["S", hx(fe)] if args[1] == 3 else ["N"])
            assert isinstance(c.Canopy10Pct, int) and isinstance(c.MaxCanopy, int)
            COV["cal_derived det=%d" % args[0]] += 1
            yield Case("cal_derived", crop_tokens(*args), exp, {"crop": name, "kw": kw})
        else:
            name = rng.choice(gd)
            kw = {}
            if rng.random() < 0.5:
                kw = {"CropType": rng.choice([1, 2, 3]), "Determinant": rng.choice([0, 1])}
            r = rng.random()
            if r < 0.12:
                kw["Maturity"] = rng.choice([20000, 9000, 6000])      # too few GDD / more than a year
            c = Crop(name, planting_date=mdstr(valid_md(rng)), harvest_date=None, **kw)
            start = pd.Timestamp("2000-01-01") + pd.Timedelta(days=rng.randint(0, 300))
            target = 0.12 <= r < 0.40                                   # maturity placed around day 365 of the season
            end = start + pd.Timedelta(days=rng.randint(800, 1100) if target else rng.choice([rng.randint(100, 400), rng.randint(300, 1000)]))
            dates = pd.date_range(start, end, freq="D")
            nn = len(dates)
            base = rng.uniform(5, 25); amp = rng.uniform(0, 12)
            tie = rng.random() < 0.3       # temperatures reported in half degrees: cumulative degree days are exact and can EQUAL a threshold
            if tie:
                tmin = [round((base + amp * np.sin(j / 58.0) + rng.uniform(-4, 4)) * 2) / 2 for j in range(nn)]
                tmax = [tmin[j] + rng.choice([4.0, 6.0, 8.0, 10.0, 12.0]) for j in range(nn)]
            else:
                tmin = [round(base + amp * np.sin(j / 58.0) + rng.uniform(-4, 4), 1) for j in range(nn)]
                tmax = [round(tmin[j] + rng.uniform(2, 15), 1) for j in range(nn)]
            w = pd.DataFrame({"MinTemp": tmin, "MaxTemp": tmax, "Precipitation": np.zeros(nn), "ReferenceET": np.full(nn, 4.0), "Date": dates})
            # first planting date as compute_crop_calendar derives it (planting_dates still empty at that point)
            py = start.year
            if pd.to_datetime(str(py) + "/" + c.planting_date) < start:
                py += 1
            pld = pd.to_datetime(str(py) + "/" + c.planting_date)
            if pld > end:
                continue
            from aquacrop.solution.growing_degree_day import growing_degree_day
            sub = w[(w.Date >= pld)]
            gdd = [float(growing_degree_day(c.GDDmethod, c.Tupp, c.Tbase, a, b)) for a, b in zip(sub.MaxTemp.values, sub.MinTemp.values)]
            if target and len(gdd) > 400:
                cum = np.cumsum(gdd)
                j = rng.choice([362, 363, 364, 365, 366, rng.randint(300, 420)])
                if cum[j] > cum[j - 1]:
                    kw["Maturity"] = float(cum[j]) - rng.choice([0.0, 0.01, 1e-9])   # first exceeded at index j (or j+1 when equal)
                    c = Crop(name, planting_date=c.planting_date, harvest_date=None, **kw)
                    COV["gdd target~365"] += 1
            if tie and len(gdd) > 60:
                # one phenological threshold placed EXACTLY on a cumulative sum (the conversion takes the first day with cum > threshold)
                cum = np.cumsum(gdd)
                which = rng.choice(["Emergence", "Senescence", "HIstart", "Maturity"])
                cur = float(getattr(c, which))
                j = int(np.searchsorted(cum, cur))
                if 0 < j < len(cum) - 2 and cum[j] > cum[j - 1]:
                    kw[which] = float(cum[j])
                    try:
                        c = Crop(name, planting_date=c.planting_date, harvest_date=None, **kw)
                        COV["gdd exact tie on " + which] += 1
                    except Exception:
                        pass
            args = (int(c.Determinant), int(c.CropType), float(c.Emergence), float(c.Senescence), float(c.Maturity), float(c.HIstart),
                    float(c.Flowering), float(c.YldForm), c.CC0, c.CCx, c.CGC)
            try:
                c = compute_crop_calendar(c, [], start, end, dates, w)
                exp = ["S"] + [str(int(x)) for x in (c.MaturityCD, c.MaxCanopyCD, c.CanopyDevEndCD, c.HIstartCD, c.HIendCD, c.YldFormCD, c.FloweringCD)]
                COV["gdd ok"] += 1
            except AssertionError as e:
                exp = ["N", err_token(e)]
                COV["gdd " + exp[1]] += 1
            yield Case("gdd_calendar", crop_tokens(*args) + " " + tl(gdd), exp, {"crop": name, "kw": kw})
