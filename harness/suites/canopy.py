"""L1: canopy_cover / adjust_CCx / update_CCx_CDC.

canopy_cover is driven through day-by-day trajectories on genuine crop objects (initialised AquaCropModel),
the state object being the model's own InitialCondition instance (mutated in place by the code, as in a run).
The soil water is set each day to produce a chosen depletion; the four root-zone values the function reads
are obtained by calling the real root_zone_water on exactly the arguments canopy_cover passes to it.
Branch coverage of the real code is recorded with sys.settrace (COVER: line number -> hits)."""
import sys, copy, collections
import numpy as np
from common import *
from l1 import Case

install_libm_proxy()
from aquacrop import AquaCropModel, Soil, Crop, InitialWaterContent
from aquacrop.utils import prepare_weather, get_filepath
from aquacrop.solution import canopy_cover as _ccmod
from aquacrop.solution.canopy_cover import canopy_cover
from aquacrop.solution.adjust_CCx import adjust_CCx
from aquacrop.solution.update_CCx_CDC import update_CCx_CDC
from aquacrop.solution.root_zone_water import root_zone_water

CROPS = ["Maize", "Wheat", "Cotton", "Potato", "Tomato", "Soybean", "Barley", "Quinoa", "Sunflower", "SugarBeet",
         "MaizeGDD", "WheatGDD", "PotatoGDD", "SorghumGDD", "SunflowerGDD", "PaddyRiceGDD", "CottonGDD", "TomatoGDD"]
SOILS = ["SandyLoam", "ClayLoam", "Loam", "Sand"]

STATE_F = ["canopy_cover", "cc_prev", "canopy_cover_ns", "canopy_cover_adj", "canopy_cover_adj_ns", "ccx_act", "ccx_act_ns",
           "ccx_w", "ccx_w_ns", "cc0_adj", "ccx_early_sen", "t_early_sen"]
STATE_B = ["protected_seed", "premat_senes", "crop_dead"]

# ------------------------------------------------------------------ branch coverage of the real code
COVER = collections.Counter()
PHASES = collections.Counter()
_CODE = canopy_cover.__code__
# line -> label (branch heads of /repo/aquacrop/solution/canopy_cover.py)
LINES = {138: "ns:outside", 144: "ns:grow-small", 149: "ns:grow-curve", 161: "ns:mid", 167: "ns:decline",
         181: "act:outside", 191: "act:protected", 199: "act:protect-off", 202: "act:small-exp", 209: "act:stress-growth",
         226: "act:CCXadj<0", 230: "act:near-CCx", 244: "act:tReq>0", 259: "act:tReq<=0", 263: "act:CGCadj<=0", 272: "act:approach-max",
         280: "act:ccx_act-up(grow)", 286: "act:mid", 290: "act:ccx_act-up(mid)", 296: "act:late-decline", 312: "act:died(dev)",
         323: "sen:early-sen", 326: "sen:first-day", 349: "sen:CDCadj-min", 351: "sen:CDCadj", 355: "sen:ces<0.001", 359: "sen:CCsen",
         374: "sen:CCsen<0", 380: "sen:CCsen>CCx", 383: "sen:before-Sen", 385: "sen:cap-prev", 393: "sen:cc0adj=cc", 401: "sen:after-Sen-lower",
         406: "sen:died", 411: "sen:no-stress", 415: "sen:rewater-late", 425: "sen:rewater-died", 433: "ccx_w-up",
         438: "ns-raised", 440: "ns-raised-ccxactns", 451: "off-season", 101: "dr:rootzone", 105: "dr:topsoil"}


def _tracer(frame, event, arg):
    if frame.f_code is _CODE:
        seen = set()

        def loc(frame, event, arg):
            if event == "line" and frame.f_lineno not in seen:   # each line at most once per call
                seen.add(frame.f_lineno)
                COVER[frame.f_lineno] += 1
            return loc
        return loc
    return None


def coverage_report():
    return {lab: COVER.get(ln, 0) for ln, lab in sorted(LINES.items())}


# ------------------------------------------------------------------ genuine crop / soil / state objects
_models = {}
_wdf = None


def model_for(crop, soil):
    global _wdf
    key = (crop, soil)
    if key not in _models:
        if _wdf is None:
            _wdf = prepare_weather(get_filepath("tunis_climate.txt"))
        m = AquaCropModel("1982/05/01", "1984/04/30", _wdf, Soil(soil), Crop(crop, planting_date="05/01"),
                          InitialWaterContent(value=["FC"]))
        m._initialize()
        _models[key] = m
    return _models[key]


def tcrop(c):
    return " ".join([str(int(c.CalendarType))] + [hx(x) for x in (c.Emergence, c.Maturity, c.CanopyDevEnd, c.Senescence, c.CC0, c.CCx, c.CGC, c.CDC)]
                    + [hx(x) for x in c.p_up] + [hx(x) for x in c.p_lo] + [str(int(c.ETadj)), hx(c.beta)] + [hx(x) for x in c.fshape_w[:3]])


def tstate(s):
    return " ".join([hx(float(getattr(s, f))) for f in STATE_F] + [tb(getattr(s, f) == True) for f in STATE_B])


def state_info(s):
    d = {f: float(getattr(s, f)) for f in STATE_F}
    d.update({f: bool(getattr(s, f) == True) for f in STATE_B})
    return d


def crop_info(c):
    return {k: (getattr(c, k).tolist() if hasattr(getattr(c, k), "tolist") else getattr(c, k)) for k in
            ("Name", "CalendarType", "Emergence", "Maturity", "CanopyDevEnd", "Senescence", "CC0", "CCx", "CGC", "CDC", "p_up", "p_lo", "ETadj", "beta", "fshape_w")}


def set_depletion(rng, prof, st, d_top, d_rest):
    """th_i = fc - d (fc - wp): top 2 compartments d_top, the rest d_rest (d may exceed 1 or be < 0)"""
    th = np.array(st.th, dtype=float)
    for i in range(len(th)):
        d = d_top if i < 2 else d_rest
        th[i] = prof.th_fc[i] - d * (prof.th_fc[i] - prof.th_wp[i])
    st.th = th


def one_call(crop, soil, st, gdd, et0, gs, kind="valid", extra=None):
    """run the real function on the state object `st` (mutated) and build the Case"""
    c = crop
    before = tstate(st)
    info = {"crop": crop_info(c), "state": state_info(st), "dap": int(st.dap), "delayed_cds": int(st.delayed_cds),
            "gdd_cum": float(st.gdd_cum), "delayed_gdds": float(st.delayed_gdds), "gdd": float(gdd), "et0": float(et0),
            "growing_season": bool(gs)}
    if extra:
        info.update(extra)
    # what canopy_cover reads from root_zone_water (same arguments as its own call)
    rz = root_zone_water(soil.Profile, float(st.z_root), st.th, soil.z_top, float(c.Zmin), c.Aer)
    dr_zt, dr_rz, taw_zt, taw_rz = rz[1], rz[2], rz[3], rz[4]
    info.update({"Dr_Rz": float(dr_rz), "Dr_Zt": float(dr_zt), "TAW_Rz": float(taw_rz), "TAW_Zt": float(taw_zt)})
    line = " ".join([tcrop(c), before, str(int(st.dap)), str(int(st.delayed_cds)), hx(st.gdd_cum), hx(st.delayed_gdds), hx(gdd),
                     hx(dr_rz), hx(dr_zt), hx(taw_rz), hx(taw_zt), hx(et0), tb(gs)])
    sys.settrace(_tracer)
    try:
        try:
            new = canopy_cover(c, soil.Profile, soil.z_top, st, gdd, et0, gs)
            exp = ["S"] + tstate(new).split()
        except (UnboundLocalError, ZeroDivisionError, IndexError, AssertionError) as e:
            exp = ["N"]
    finally:
        sys.settrace(None)
    return Case("canopy_cover", line, exp, info, kind)


def fresh_state(m, rng):
    st = copy.deepcopy(m._init_cond)
    c = m._param_struct.Seasonal_Crop_List[0]
    st.cc0_adj = c.CC0
    st.protected_seed = rng.choice([True, True, 0, False])
    st.z_root = float(c.Zmin)
    return st


def gen_traj(rng, n):
    """chained daily calls; yields n cases"""
    done = 0
    while done < n:
        cname = rng.choice(CROPS); sname = rng.choice(SOILS)
        m = model_for(cname, sname)
        c = m._param_struct.Seasonal_Crop_List[0]
        soil = m._param_struct.Soil
        st = fresh_state(m, rng)
        gddmode = c.CalendarType == 2
        # scenario for the depletion sequence
        scen = rng.choice(["none", "mild", "mixed", "mixed", "severe-mid", "severe-late", "dry-early", "random", "late-rewater", "late-rewater"])
        level = 0.0
        delay_days = rng.choice([0, 0, 0, 2, 5])
        tupp = 22.0 if gddmode else 0.0
        horizon = float(c.Maturity)
        t = 0.0
        day = 0
        # stress window for the scripted scenarios, as a fraction of the season
        w0 = rng.uniform(0.15, 0.8); w1 = w0 + rng.uniform(0.05, 0.4)
        if scen == "late-rewater":
            sen_frac = float(c.Senescence) / horizon
            w0 = sen_frac - rng.uniform(0.02, 0.25); w1 = sen_frac + rng.uniform(0.0, 0.12)
        while done < n:
            day += 1
            gdd = float(round(max(0.0, min(tupp, rng.gauss(12, 5))), rng.choice([1, 2, 6]))) if gddmode else float(round(rng.uniform(5, 20), 1))
            st.dap = st.dap + 1
            st.gdd_cum = st.gdd_cum + gdd
            if delay_days > 0 and day <= delay_days:   # germination delay
                st.delayed_cds = st.delayed_cds + 1
                st.delayed_gdds = st.delayed_gdds + gdd
            t = (st.gdd_cum - st.delayed_gdds) if gddmode else (st.dap - st.delayed_cds)
            frac = t / horizon
            if scen == "none": d = rng.uniform(-0.05, 0.12)
            elif scen == "mild": d = rng.uniform(0.1, 0.55)
            elif scen == "random": d = rng.uniform(-0.1, 1.1)
            elif scen == "dry-early": d = rng.uniform(0.6, 1.05) if frac < w0 else rng.uniform(0, 0.3)
            elif scen in ("severe-mid", "severe-late", "late-rewater"):
                d = rng.uniform(0.75, 1.05) if w0 <= frac <= w1 else rng.uniform(0.0, 0.25)
            else:   # mixed: random walk with occasional re-watering
                level += rng.uniform(0.0, 0.09)
                if rng.random() < 0.06: level = rng.uniform(0, 0.2)
                d = min(level, 1.08)
            d_top = d + rng.choice([0, 0, -0.1, 0.1, rng.uniform(-0.3, 0.3)])
            set_depletion(rng, soil.Profile, st, d_top, d)
            st.z_root = min(float(c.Zmax), float(c.Zmin) + (float(c.Zmax) - float(c.Zmin)) * min(1.0, frac * 1.6))
            et0 = float(round(rng.uniform(0.5, 9.5), 1))
            gs = True
            last = frac > 1.0 + rng.uniform(0.01, 0.06)
            if last: gs = False
            elif rng.random() < 0.002: gs = False
            ph = ("pre" if t < c.Emergence else "grow" if t < c.CanopyDevEnd else "cde" if t == c.CanopyDevEnd else
                  "mid" if t < c.Senescence else "late" if round(t) <= c.Maturity else "post")
            PHASES[ph if gs else "off"] += 1
            yield one_call(c, soil, st, gdd, et0, gs, extra={"traj": [cname, sname, scen], "day": day})
            done += 1
            if last or day > 400: break


def gen_randstate(rng, n):
    """single calls on perturbed states (outside what trajectories reach): exercises the guards"""
    for _ in range(n):
        cname = rng.choice(CROPS); sname = rng.choice(SOILS)
        m = model_for(cname, sname)
        c = m._param_struct.Seasonal_Crop_List[0]
        soil = m._param_struct.Soil
        st = fresh_state(m, rng)
        ccx = float(c.CCx)
        r = lambda: rng.choice([0, 0.0, float(c.CC0), ccx, 0.9799 * ccx, 0.98 * ccx, 0.0005, rng.uniform(0, ccx), rng.uniform(0, 1.0), ccx / 2,
                                0.9799 * ccx - rng.uniform(0, 0.0012), 0.9799 * ccx - rng.uniform(0, 0.0012), min(1.0, ccx + rng.uniform(0, 0.03))])
        st.canopy_cover = r(); st.canopy_cover_ns = r(); st.ccx_act = r(); st.ccx_act_ns = r(); st.ccx_w = r(); st.ccx_w_ns = r()
        st.ccx_early_sen = r(); st.cc0_adj = rng.choice([float(c.CC0), float(c.CC0), rng.uniform(0.01, 1.0) * float(c.CC0), st.canopy_cover])
        if st.cc0_adj == 0:
            # cc > cc0_adj = 0 would divide by zero in cc_required_time: ZeroDivisionError for Python floats/ints,
            # inf for np.float64 -- a dynamic-type dependence the model cannot express; unreachable in a run (see report)
            st.cc0_adj = float(c.CC0)
        st.protected_seed = rng.choice([True, False, 0, 1]); st.crop_dead = rng.choice([False, False, True]); st.premat_senes = rng.choice([False, True])
        gddmode = c.CalendarType == 2
        key = rng.choice([c.Emergence, c.CanopyDevEnd, c.Senescence, c.Maturity, rng.uniform(0, float(c.Maturity) * 1.05)])
        if gddmode:
            gdd = float(round(rng.uniform(0, 22), 1))
            t = float(key) + rng.choice([0, 0, -0.5, 0.5, 0.49, -gdd, gdd, rng.uniform(-30, 30)])
            st.delayed_gdds = rng.choice([0, 0, float(round(rng.uniform(0, 60), 1))])
            st.gdd_cum = max(0.0, t) + st.delayed_gdds
            st.dap = int(rng.uniform(1, 200)); st.delayed_cds = rng.choice([0, 0, 3])
            st.t_early_sen = rng.choice([0, 0, gdd, float(round(rng.uniform(0, 300), 1))])
        else:
            gdd = float(round(rng.uniform(0, 22), 1))
            t = int(round(float(key))) + rng.choice([0, 0, -1, 1, 2, -2])
            st.delayed_cds = rng.choice([0, 0, 3, 7])
            st.dap = max(0, t) + st.delayed_cds
            st.gdd_cum = float(round(rng.uniform(0, 3000), 1)); st.delayed_gdds = rng.choice([0, 0, 35.5])
            st.t_early_sen = rng.choice([0, 0, 1, rng.randint(1, 40)])
        d = rng.choice([0.0, rng.uniform(-0.1, 1.1), rng.uniform(0.6, 1.05)])
        set_depletion(rng, soil.Profile, st, d + rng.choice([0, -0.1, 0.1]), d)
        st.z_root = rng.choice([float(c.Zmin), float(c.Zmax), rng.uniform(float(c.Zmin), float(c.Zmax))])
        et0 = float(round(rng.uniform(0.5, 9.5), 1))
        special = rng.random()
        if special < 0.3:
            # targeted set-ups for two rare branches: "approaching CCx" (|cc - 0.9799 CCx| < 0.001) and CCsen > CCx
            near = special < 0.17
            lo, hi = float(c.Emergence), float(c.CanopyDevEnd if near else c.Senescence)
            if gddmode:
                st.delayed_gdds = 0; st.gdd_cum = rng.uniform(lo + 1, hi - 1)
            else:
                st.delayed_cds = 0; st.dap = rng.randint(int(lo) + 1, int(hi) - 1)
            st.protected_seed = False; st.cc0_adj = float(c.CC0); st.t_early_sen = 0
            if near:
                st.canopy_cover = 0.9799 * ccx - rng.uniform(0, 0.00115)
                d = rng.uniform(0.0, 0.3)
            else:
                st.canopy_cover = min(1.0, ccx + rng.uniform(0.001, 0.03))
                d = rng.uniform(0.85, 1.05)
            set_depletion(rng, soil.Profile, st, d, d)
        PHASES["randstate"] += 1
        yield one_call(c, soil, st, gdd, et0, rng.random() < 0.97, extra={"traj": [cname, sname, "randstate"]})


def gen_malformed(rng, n):
    for _ in range(n):
        cname = rng.choice(CROPS); sname = rng.choice(SOILS)
        m = model_for(cname, sname)
        c = copy.copy(m._param_struct.Seasonal_Crop_List[0])
        c.CalendarType = rng.choice([0, 3, 4])
        soil = m._param_struct.Soil
        st = fresh_state(m, rng)
        st.dap = rng.randint(1, 100); st.gdd_cum = float(st.dap * 11)
        PHASES["malformed"] += 1
        yield one_call(c, soil, st, 11.0, 5.0, True, kind="malformed")


def canopy_params(rng):
    cname = rng.choice(CROPS)
    c = model_for(cname, "SandyLoam")._param_struct.Seasonal_Crop_List[0]
    if rng.random() < 0.7:
        return c, float(c.CC0), float(c.CCx), float(c.CGC), float(c.CDC)
    ccx = rng.choice([0.5, 0.75, 0.9, 0.96, 1.0, rng.uniform(0.05, 1.0)]); cc0 = ccx * rng.uniform(0.001, 0.45)
    sc = 1.0 if c.CalendarType == 1 else 0.08
    return c, cc0, ccx, rng.uniform(0.02, 0.3) * sc, rng.uniform(0.02, 0.3) * sc


def gen_adjust(rng, n):
    for _ in range(n):
        c, cc0, ccx, cgc, cdc = canopy_params(rng)
        cgcadj = cgc * rng.choice([1.0, rng.uniform(0.01, 1.0)])
        cco = rng.choice([cc0, cc0, cc0 * rng.uniform(0.1, 1.0)])
        ccp = rng.choice([cco, ccx / 2, cco + (ccx - cco) * rng.uniform(0.0, 0.98), cco * rng.uniform(0.5, 1.0)])
        dt = 1 if c.CalendarType == 1 else float(round(rng.uniform(0, 22), 1))
        cde = c.CanopyDevEnd
        tsum = rng.uniform(float(c.Emergence), float(cde)) if c.CalendarType == 2 else rng.randint(int(c.Emergence), int(cde))
        r = adjust_CCx(ccp, cco, ccx, cgcadj, cdc, dt, tsum, cde, ccx)
        yield Case("adjust_CCx", " ".join(hx(x) for x in (ccp, cco, ccx, cgcadj, cdc, dt, tsum, cde, ccx)), [hx(r)],
                   {"cc_prev": ccp, "CCo": cco, "CCx": ccx, "CGC": cgcadj, "CDC": cdc, "dt": dt, "tSum": tsum, "CanopyDevEnd": cde})


def gen_update(rng, n):
    for _ in range(n):
        c, cc0, ccx, cgc, cdc = canopy_params(rng)
        ccp = rng.choice([ccx, 0.0, rng.uniform(0, ccx)])
        span = float(c.Maturity) - float(c.Senescence)
        dt = rng.choice([0.0, -1.0, rng.uniform(-0.1, 1.3) * span, float(rng.randint(0, max(1, int(span))))])
        r = update_CCx_CDC(np.float64(ccp), cdc, ccx, dt)
        yield Case("update_CCx_CDC", " ".join(hx(x) for x in (ccp, cdc, ccx, dt)), [hx(r[0]), hx(r[1])],
                   {"cc_prev": ccp, "CDC": cdc, "CCx": ccx, "dt": dt})


def gen(rng, n):
    n_mal = max(2, n // 100)
    n_adj = n // 20
    n_upd = n // 20
    n_rand = n // 10
    n_traj = n - n_mal - n_adj - n_upd - n_rand
    yield from gen_traj(rng, n_traj)
    yield from gen_randstate(rng, n_rand)
    yield from gen_adjust(rng, n_adj)
    yield from gen_update(rng, n_upd)
    yield from gen_malformed(rng, n_mal)
