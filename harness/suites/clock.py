"""Clock correspondence (suites D/A of DESIGN.md): the extracted Clock.v (growing-season test, dap counter,
maturity/harvest flags, summary rows, termination test, update_time with season jumps, run_model in both modes)
against real runs of /repo.  The physics is replaced on the model side by the stream of the two booleans the
clock logic consumes (crop_dead, crop_mature after each day's processes), recorded from the same real run.
The implementation is observed by rebinding `solution_single_time_step` in aquacrop.core's namespace."""
import numpy as np
import pandas as pd
from common import *
from l1 import Case
import sim
import aquacrop.core as core

_ORIG_STEP = core.solution_single_time_step


def observe_run(cfg, ks=None, till=True):
    """returns dict(clock=..., obs=[...], steps=[...], final=..., state=..., error=None|str)"""
    m = sim.build_model(cfg)
    m._initialize()
    cs = m._clock_struct
    start = pd.Timestamp(cs.simulation_start_date)
    clock = {"n_steps": int(cs.n_steps), "plant": [int((pd.Timestamp(d) - start).days) for d in cs.planting_dates],
             "harv": [int((pd.Timestamp(d) - start).days) for d in cs.harvest_dates], "off": bool(cs.sim_off_season)}
    steps = []

    def wrapped(init_cond, param_struct, clock_struct, weather_step, outputs):
        r = _ORIG_STEP(init_cond, param_struct, clock_struct, weather_step, outputs)
        nc = r[0]
        steps.append((int(clock_struct.time_step_counter), int(clock_struct.season_counter), bool(nc.growing_season), int(nc.dap),
                      bool(nc.crop_dead), bool(nc.crop_mature), bool(nc.harvest_flag)))
        return r

    core.solution_single_time_step = wrapped
    err = None
    used_ks = []
    try:
        if ks:
            for k in ks:
                if m._clock_struct.model_is_finished:
                    break
                used_ks.append(int(k))
                m.run_model(num_steps=int(k), initialize_model=False)
        if till and not m._clock_struct.model_is_finished:
            m.run_model(till_termination=True, initialize_model=False)
    except Exception as e:  # the model's own verdict: compared as "raises"
        err = sim.exc_info(e)
    finally:
        core.solution_single_time_step = _ORIG_STEP
    cs = m._clock_struct; ic = m._init_cond
    fs = m._outputs.final_stats
    final = []
    for row in fs.values.tolist():
        final.append((int(row[0]), int(row[3]), int((pd.Timestamp(row[2]) - start).days)))
    state = (int(cs.time_step_counter), int(cs.season_counter), int(ic.dap), bool(ic.crop_mature), bool(ic.harvest_flag))
    return {"clock": clock, "steps": steps, "final": final, "state": state, "finished": bool(cs.model_is_finished),
            "error": err, "ks": used_ks, "till": bool(till)}


def encode(o):
    c = o["clock"]
    toks = [str(c["n_steps"]), str(len(c["plant"]))] + [str(x) for x in c["plant"]] + [str(len(c["harv"]))] + [str(x) for x in c["harv"]]
    toks.append(tb(c["off"]))
    toks.append(str(len(o["steps"])))
    for s in o["steps"]:
        toks += [tb(s[4]), tb(s[5])]
    toks.append(str(len(o["ks"])))
    toks += [str(k) for k in o["ks"]]
    toks.append(tb(o["till"]))
    line = " ".join(toks)
    if o["error"]:
        exp = ["N"]
    else:
        exp = ["S", tb(o["finished"]), str(len(o["steps"]))]
        for s in o["steps"]:
            exp += [str(s[0]), str(s[1]), tb(s[2]), str(s[3])]
        exp.append(str(len(o["final"])))
        for f in o["final"]:
            exp += [str(f[0]), str(f[1]), str(f[2])]
        exp += [str(o["state"][0]), str(o["state"][1]), str(o["state"][2]), tb(o["state"][3]), tb(o["state"][4])]
    return line, exp


def clock_cfg(rng):
    """windows that stress the clock: starts before/at/after planting, ends mid-season, New-Year seasons,
    user harvest dates earlier than maturity, off-season on/off, crops that die, thermal-time crops"""
    crop = rng.choice(["Wheat", "Maize", "Potato", "Tomato", "Barley", "MaizeGDD", "WheatGDD", "Quinoa", "SugarBeet", "Sorghum", "DryBean"])
    cfg = sim.gen_config(rng, crop=crop, seasons=rng.choice([1, 2, 2, 3, 4]), soil_type=rng.choice(["SandyLoam", "Clay", "Loam"]),
                         method=rng.choice([0, 0, 2]), gw=False, bunds=False, mulches=False,
                         off_season=rng.random() < 0.5)
    cfg["co2"] = None; cfg["field"] = None; cfg["fallow_field"] = None; cfg["iwc"] = None
    cfg["soil"] = {"type": cfg["soil"]["type"], "kwargs": {}}
    if rng.random() < 0.3:   # explicit harvest date, possibly before maturity
        pm, pdd = int(cfg["crop"]["planting_date"][:2]), int(cfg["crop"]["planting_date"][3:])
        d = pd.Timestamp(year=1991, month=pm, day=pdd) + pd.Timedelta(days=rng.choice([20, 60, 100, 150, 200]))
        cfg["crop"]["harvest_date"] = "%02d/%02d" % (d.month, d.day)
    if rng.random() < 0.25:   # drought: the crop may die
        cfg["weather"]["ops"] = [["scale", "Precipitation", 0.0]]
        cfg["iwc"] = {"wc_type": "Pct", "method": "Layer", "depth_layer": [1], "value": [rng.choice([0, 10, 30])]}
    return cfg


def job(payload):
    cfg, ks, till = payload
    try:
        o = observe_run(cfg, ks, till)
    except Exception as e:
        return {"init_error": sim.exc_info(e), "cfg": cfg}
    line, exp = encode(o)
    return {"line": line, "exp": exp, "cfg": cfg, "n": len(o["steps"]), "seasons": len(o["final"]), "ks": o["ks"], "off": o["clock"]["off"],
            "error": o["error"]}


def gen(rng, n):
    payloads = []
    for i in range(n):
        cfg = clock_cfg(rng)
        r = rng.random()
        if r < 0.5:
            ks, till = None, True
        elif r < 0.8:
            ks = [rng.choice([1, 1, 2, 3, 7, 30, 100, 400]) for _ in range(rng.randint(1, 12))]; till = True
        else:
            ks = [rng.choice([1, 2, 5, 20, 90]) for _ in range(rng.randint(1, 6))]; till = False
        payloads.append((cfg, ks, till))
    res = sim.pmap(job, payloads, timeout=300)
    for r in res:
        if "line" not in r:
            continue      # configuration rejected at initialisation (C16's business), nothing to compare
        if r["error"] and not str(r["error"].get("origin", "")).startswith(("update_time", "core.py", "run_single_timestep")):
            continue      # raised by the physics of a season start (documented GDD rejections), not by the clock logic
        yield Case("clock_run", r["line"], r["exp"], {"cfg": r["cfg"], "steps": r["n"], "summary_rows": r["seasons"], "ks": r["ks"],
                                                      "off_season": r["off"], "impl_error": r["error"]})
