"""L1 suite for the cropinit unit (Init/CropInit.v).

(H) `higc` / `hilin`: the real `calculate_HIGC` and `calculate_HI_linear` on the (YldFormCD, HI0, HIini) triples of all
    catalogue crops and on random ones (YldFormCD 1..250 as Python float / int / np.int64 / non-integer float, a share of very
    long periods; HI0 0.05..0.95; HIini 0.001..0.05; a share with HI0 close to or below HIini).  `hilin` gets the HIGC the
    real `calculate_HIGC` returned (or, for a share, an arbitrary one).
(M) malformed stream: YldFormCD <= 0, HI0 <= 0, HIini = 0, YldFormCD = -1 for `calculate_HI_linear` ... run in worker
    processes under `signal.alarm`; a call that does not return within the time limit is classified as "does not return"
    (expected model answer: None).  Calls that do return (e.g. HIini = 0: the loop is left through a NaN) are compared bit for bit.
(A) `addpar`: `Crop.calculate_additional_params` (CC0, SxTop, SxBot) on real `Crop(...)` objects with overridden options.
(G) `cgc_gdd` / `cdc_gdd`: the two conversion formulas of the SwitchGDD = 1 branch, through the real `_initialize()`.
(C) `crop_init`: every catalogue crop through the real `AquaCropModel(...)._initialize()`; the attributes written on
    `m._param_struct.Seasonal_Crop_List[0]` against the model (inputs taken from a fresh `Crop(...)` with the same options).
`COV` holds the branch coverage of the last `gen()` call.
"""
import collections, math, signal
import numpy as np
import pandas as pd
from common import *
from l1 import Case

install_libm_proxy()
import sim
from aquacrop.initialize.calculate_HIGC import calculate_HIGC
from aquacrop.initialize.calculate_HI_linear import calculate_HI_linear
from aquacrop.solution.growing_degree_day import growing_degree_day
from aquacrop.entities.crop import Crop
from aquacrop.entities.crops.crop_params import crop_params

COV = collections.Counter()
CROPS = sorted(crop_params.keys())
HANG_S = 20          # 2^20 iterations of the real loop take about 4 s; a call still running after 20 s needs > 2^20


# ----------------------------------------------------------------------------------------------
# coverage-only shadows of the two loops (never used for the expected values)
def shadow_higc(thi, hi0, ini, cap=2000000):
    g = 0.001; est = 0.0; it = 0
    thi = float(thi)
    while est <= 0.98 * hi0 and it < cap:
        g += 0.001; it += 1
        try:
            e = math.exp(-g * thi)
        except OverflowError:
            e = math.inf
        d = ini + (hi0 - ini) * e
        est = (ini * hi0) / d if d != 0 else (math.nan if ini * hi0 == 0 else math.copysign(math.inf, ini * hi0))
    return it, ("sub" if est >= hi0 else "nosub")


def shadow_hilin(tmax, ini, hi0, g):
    ti = 0; est = 0.0; prev = ini
    tmax = float(tmax)
    while est <= hi0 and ti < tmax:
        ti += 1
        try:
            e = math.exp(-g * ti)
        except OverflowError:
            e = math.inf
        d = ini + (hi0 - ini) * e
        new = (ini * hi0) / d if d != 0 else math.nan
        est = new + (tmax - ti) * (new - prev); prev = new
    return "exit_est" if not (est <= hi0) else "exit_tmax"


def num_tok(x):
    return hx(float(x))


def higc_case(thi, hi0, ini, kind="valid", tag=None):
    g = calculate_HIGC(thi, hi0, ini)
    it, br = shadow_higc(thi, hi0, ini)
    COV["higc:" + br] += 1
    COV["higc:iter<=1" if it <= 1 else "higc:iter<100" if it < 100 else "higc:iter<1000" if it < 1000 else "higc:iter>=1000"] += 1
    info = {"YldFormCD": float(thi), "type": type(thi).__name__, "HI0": hi0, "HIini": ini, "iterations": it, "tag": tag}
    return g, Case("higc", "%s %s %s" % (num_tok(thi), hx(hi0), hx(ini)), ["S", hx(g)], info, kind)


def hilin_case(tmax, ini, hi0, g, kind="valid", tag=None):
    info = {"YldFormCD": float(tmax), "type": type(tmax).__name__, "HI0": hi0, "HIini": ini, "HIGC": float(g), "tag": tag}
    line = "%s %s %s %s" % (num_tok(tmax), hx(ini), hx(hi0), hx(g))
    try:
        ts, d = calculate_HI_linear(tmax, ini, hi0, g)
    except ZeroDivisionError:
        COV["hilin:ZeroDivisionError"] += 1
        return Case("hilin", line, ["N"], info, kind)
    COV["hilin:" + shadow_hilin(tmax, ini, hi0, g)] += 1
    COV["hilin:tSwitch>0" if ts > 0 else "hilin:tSwitch=%d" % ts] += 1
    assert isinstance(ts, (int, np.integer))
    return Case("hilin", line, ["S", str(int(ts)), hx(d)], info, kind)


def rnd_triple(rng):
    r = rng.random()
    if r < 0.60:
        thi = float(rng.randint(1, 250)); tt = "float"
    elif r < 0.72:
        thi = rng.randint(1, 250); tt = "int"
    elif r < 0.82:
        thi = np.int64(rng.randint(1, 250)); tt = "int64"
    elif r < 0.93:
        thi = rng.uniform(0.5, 250.0); tt = "frac"
    else:
        thi = float(rng.choice([rng.randint(251, 5000), rng.randint(5000, 100000), rng.randint(100000, 1000000)])); tt = "long"
    hi0 = round(rng.uniform(0.05, 0.95), 2) if rng.random() < 0.5 else rng.uniform(0.05, 0.95)
    r = rng.random()
    if r < 0.35:
        ini = 0.01
    elif r < 0.6:
        ini = round(rng.uniform(0.001, 0.05), 3)
    else:
        ini = rng.uniform(0.001, 0.05)
    r = rng.random()
    if r < 0.05:
        hi0 = ini * (1.0 + rng.uniform(0.0, 0.6)); tt += ",HI0~HIini"
    elif r < 0.08:
        hi0 = ini * rng.uniform(0.3, 1.0); tt += ",HI0<=HIini"
    elif r < 0.09:
        hi0 = ini; tt += ",HI0=HIini"
    return thi, hi0, ini, tt


def gen_search(rng, n):
    # the catalogue first
    cat = []
    for name in CROPS:
        p = crop_params[name]
        y = p.get("YldFormCD")
        if y is None:
            y = 61.0
        if p.get("CalendarType") == 2 and not isinstance(y, int):
            y = np.int64(int(y))            # after the thermal-mode calendar the value is a np.int64
        cat.append((y, float(p["HI0"]), float(Crop(name, planting_date="05/01").HIini), "catalogue:" + name))
    for i in range(n):
        if i < len(cat):
            thi, hi0, ini, tag = cat[i]
            COV["search:catalogue"] += 1
        else:
            thi, hi0, ini, tag = rnd_triple(rng)
            for t in tag.split(","):
                COV["search:" + t] += 1
        g, c = higc_case(thi, hi0, ini, tag=tag)
        yield c
        if rng.random() < 0.15 and i >= len(cat):
            g = rng.choice([0.0, 0.001, rng.uniform(0.001, 1.0), rng.uniform(0.0, 0.05), 5.0]); COV["hilin:arbitrary_HIGC"] += 1
        yield hilin_case(thi, ini, hi0, g, tag=tag)


# ----------------------------------------------------------------------------------------------
# malformed stream
def _mal_job(p):
    fn, args = p
    if fn == "higc":
        g = calculate_HIGC(*args)
        return {"ok": True, "out": ["S", hx(g)]}
    try:
        ts, d = calculate_HI_linear(*args)
        return {"ok": True, "out": ["S", str(int(ts)), hx(d)]}
    except ZeroDivisionError:
        return {"ok": True, "out": ["N"]}


def gen_malformed(rng, n):
    jobs = []
    for i in range(n):
        r = i % 10
        hi0 = round(rng.uniform(0.2, 0.9), 2); ini = 0.01; thi = float(rng.randint(20, 150))
        if r == 0:
            jobs.append(("higc", (0.0, hi0, ini), "YldFormCD=0"))
        elif r == 1:
            jobs.append(("higc", (float(-rng.randint(1, 100)), hi0, ini), "YldFormCD<0"))
        elif r == 2:
            jobs.append(("higc", (thi, 0.0, ini), "HI0=0"))
        elif r == 3:
            jobs.append(("higc", (thi, -hi0, ini), "HI0<0"))
        elif r == 4:
            jobs.append(("higc", (float(rng.randint(5, 250)), hi0, 0.0), "HIini=0"))
        elif r == 5:
            jobs.append(("higc", (thi, hi0, -0.01), "HIini<0"))
        elif r == 6:
            jobs.append(("higc", (0, hi0, rng.choice([0.98 * hi0, hi0, 0.99 * hi0, 0.5 * hi0])), "YldFormCD=0,HIini~HI0"))
        elif r == 7:
            jobs.append(("hilin", (-1.0, ini, hi0, 0.1), "hilin:YldFormCD=-1"))
        elif r == 8:
            jobs.append(("hilin", (float(rng.choice([0, -2, -1.5, -30])), ini, hi0, 0.1), "hilin:YldFormCD<=0"))
        else:
            jobs.append(("hilin", (thi, ini, rng.choice([0.0, -hi0]), 0.1), "hilin:HI0<=0"))
    res = sim.pmap(_mal_job, [(f, a) for f, a, _ in jobs], timeout=HANG_S)
    for (fn, args, tag), r in zip(jobs, res):
        info = {"args": [float(a) for a in args], "tag": tag}
        line = " ".join(num_tok(a) for a in args)
        if r.get("hang"):
            COV["malformed:%s:does_not_return" % tag] += 1
            yield Case(fn, line, ["N"], info, "malformed")
        elif r.get("ok"):
            COV["malformed:%s:%s" % (tag, "raises" if r["out"] == ["N"] else "returns")] += 1
            # a call that returns is compared bit for bit; a raise only as an error
            yield Case(fn, line, r["out"], info, "malformed" if r["out"] == ["N"] else "valid")
        else:
            raise RuntimeError(str(r)[:500])


# ----------------------------------------------------------------------------------------------
# Crop.calculate_additional_params
def gen_addpar(rng, n):
    for i in range(n):
        name = rng.choice(CROPS)
        kw = {}
        r = rng.random()
        if r < 0.25:
            pass
        else:
            kw["PlantPop"] = rng.choice([rng.randint(1000, 5000000), float(rng.randint(1000, 5000000)), 75_000])
            kw["SeedSize"] = rng.choice([1.5, 5.0, 6.5, 15.0, round(rng.uniform(0.5, 30), 2)])
            a = round(rng.uniform(0.001, 0.06), 4)
            r2 = rng.random()
            if r2 < 0.15:
                b = a
            elif r2 < 0.35:
                b = round(a + rng.uniform(0.0005, 0.05), 4)             # bottom > top
            elif r2 < 0.6:
                b = round(a * rng.uniform(0.0, 0.14), 5)                # xx < 0.5
            else:
                b = round(a * rng.uniform(0.1, 0.999), 5)
            kw["SxTopQ"] = a; kw["SxBotQ"] = b
        c = Crop(name, planting_date="05/01", **kw)
        q1, q2 = float(c.SxTopQ), float(c.SxBotQ)
        if q1 == q2:
            COV["addpar:equal"] += 1
        else:
            s1, s2 = max(q1, q2), min(q1, q2)
            COV["addpar:%s,%s" % ("top>bot" if q1 > q2 else "top<bot", "xx<0.5" if 3 * (s2 / (s1 - s2)) < 0.5 else "xx>=0.5")] += 1
        yield Case("addpar", "%s %s %s %s" % (num_tok(c.PlantPop), num_tok(c.SeedSize), hx(q1), hx(q2)),
                   [hx(c.CC0), hx(c.SxTop), hx(c.SxBot)], {"crop": name, "kw": kw})


# ----------------------------------------------------------------------------------------------
# full initialisation
CROP_ATTRS_CD = ("EmergenceCD", "SenescenceCD", "MaturityCD", "HIstartCD", "FloweringCD", "YldFormCD")
CROP_ATTRS_GDD = ("Emergence", "Senescence", "Maturity", "HIstart", "Flowering", "YldForm")


def _gdd_series(m, c0):
    """daily growing degree days from the first planting date to the end of the window (the input of the thermal calendar)"""
    cs = m._clock_struct
    w = m.weather_df
    sub = w[(w.Date >= cs.planting_dates[0]) & (w.Date <= cs.time_span[-1])]
    return [float(growing_degree_day(c0.GDDmethod, c0.Tupp, c0.Tbase, a, b)) for a, b in zip(sub.MaxTemp.values, sub.MinTemp.values)]


def _init_job(cfg):
    install_libm_proxy()
    ck = cfg["crop"]
    c0 = Crop(ck["name"], planting_date=ck["planting_date"], harvest_date=ck.get("harvest_date"), **ck.get("kwargs", {}))
    mode = int(c0.CalendarType)
    attrs = CROP_ATTRS_CD if mode == 1 else CROP_ATTRS_GDD
    cal = [int(c0.Determinant), int(c0.CropType)] + [float(getattr(c0, a)) for a in attrs] + \
          [float(c0.CC0), float(c0.CCx), float(c0.CGC_CD if mode == 1 else c0.CGC)]
    inp = {"mode": mode, "cal": cal, "PlantPop": float(c0.PlantPop), "SeedSize": float(c0.SeedSize), "SxTopQ": float(c0.SxTopQ),
           "SxBotQ": float(c0.SxBotQ), "HI0": float(c0.HI0), "HIini": float(c0.HIini), "bsted": float(c0.bsted), "bface": float(c0.bface),
           "fsink": float(c0.fsink), "WP": float(c0.WP), "switch": int(c0.SwitchGDD)}
    try:
        m = sim.build_model(cfg)
        m._initialize()
    except AssertionError as e:
        msg = str(e)
        return {"ok": False, "inp": inp, "err": "AssertionError_NotEnoughGDD" if "not enough" in msg else "AssertionError_OverAYear" if "longer than 1 year" in msg else "AssertionError?" + msg[:80]}
    c = m._param_struct.Seasonal_Crop_List[0]
    co2 = m._param_struct.CO2
    out = {"CC0": float(c.CC0), "SxTop": float(c.SxTop), "SxBot": float(c.SxBot), "CanopyDevEnd": float(c.CanopyDevEnd),
           "Canopy10Pct": int(c.Canopy10Pct), "MaxCanopy": int(c.MaxCanopy), "HIend": float(c.HIend),
           "YldFormCD": float(c.YldFormCD), "HIGC": float(c.HIGC), "tLinSwitch": int(c.tLinSwitch), "dHILinear": float(c.dHILinear),
           "fCO2": float(c.fCO2), "types": [type(c.YldFormCD).__name__, type(c.Canopy10Pct).__name__, type(c.tLinSwitch).__name__]}
    if int(c0.CropType) == 3:
        out["FloweringEnd"] = float(c.FloweringEndCD if mode == 1 else c.FloweringEnd)
    if mode == 2:
        out["gdd_cd"] = [int(getattr(c, a)) for a in ("MaturityCD", "MaxCanopyCD", "CanopyDevEndCD", "HIstartCD", "HIendCD", "YldFormCD", "FloweringCD")]
        inp["gdd"] = _gdd_series(m, c0)
    else:
        inp["gdd"] = []
        out["copies_ok"] = bool(c.CGC == c0.CGC_CD and c.CDC == c0.CDC_CD and c.Emergence == c0.EmergenceCD and c.Maturity == c0.MaturityCD
                                and c.YldForm == c0.YldFormCD and c.HIstart == c0.HIstartCD and c.Senescence == c0.SenescenceCD
                                and c.MaxRooting == c0.MaxRootingCD) if not inp["switch"] else True
    if inp["switch"]:
        # the conversion formulas read the values prepare_gdd left on the crop; they are not touched afterwards
        out["switch"] = {"CCx": float(c.CCx), "CC0": float(c.CC0), "MaxCanopy": float(c.MaxCanopy), "Emergence": float(c.Emergence),
                         "CDC_CD": float(c.CDC_CD), "tCD": float(c.MaturityCD - c.SenescenceCD), "tGDD": float(c.Maturity - c.Senescence),
                         "CGC": float(c.CGC), "CDC": float(c.CDC)}
    inp["conc"] = float(co2.current_concentration); inp["ref"] = float(co2.ref_concentration)
    return {"ok": True, "inp": inp, "out": out}


def init_line(inp):
    cal = inp["cal"]
    toks = [str(inp["mode"]), str(cal[0]), str(cal[1])] + [hx(x) for x in cal[2:]]
    toks += [hx(inp[k]) for k in ("PlantPop", "SeedSize", "SxTopQ", "SxBotQ", "HI0", "HIini", "bsted", "bface", "fsink", "WP")]
    toks += [tl(inp["gdd"]), hx(inp["conc"]), hx(inp["ref"])]
    return " ".join(toks)


def init_expect(inp, out):
    e = ["S", hx(out["CC0"]), hx(out["SxTop"]), hx(out["SxBot"]),
         "S", hx(out["CanopyDevEnd"]), str(out["Canopy10Pct"]), str(out["MaxCanopy"]), hx(out["HIend"])]
    e += ["S", hx(out["FloweringEnd"])] if "FloweringEnd" in out else ["N"]
    e += (["S"] + [str(x) for x in out["gdd_cd"]]) if inp["mode"] == 2 else ["N"]
    e += [hx(out["YldFormCD"]), hx(out["HIGC"]), str(out["tLinSwitch"]), hx(out["dHILinear"]), hx(out["fCO2"])]
    return e


def init_cfg(rng, name, variant):
    """a configuration for one real initialisation; variant 0: catalogue values"""
    wfile = rng.choice(["tunis_climate.txt", "champion_climate.txt", "brussels_climate.txt", "hyderabad_climate.txt", "cordoba_climate.txt"]) if variant else "champion_climate.txt"
    w0, w1 = sim.weather_range(wfile)
    plant = sim.default_planting(rng, name, wfile) if variant else ("10/15" if name in ("Wheat", "WheatGDD", "Barley", "BarleyGDD", "WheatLongGDD", "WheatGDD_1dec", "HydWheatGDD") else "05/01")
    y0 = rng.randint(w0.year + 1, w1.year - 4) if variant else w0.year + 1
    start = pd.Timestamp(year=y0, month=int(plant[:2]), day=int(plant[3:])) - pd.Timedelta(days=rng.choice([0, 0, 5, 40]) if variant else 0)
    end = start + pd.Timedelta(days=rng.choice([500, 700, 900]))
    kw = {}
    mode = crop_params[name].get("CalendarType")
    if variant:
        r = rng.random()
        if r < 0.7:
            kw["HI0"] = round(rng.uniform(0.1, 0.95), 2)
        if rng.random() < 0.5:
            kw["HIini"] = round(rng.uniform(0.002, 0.05), 3)
        if rng.random() < 0.5:
            kw["PlantPop"] = rng.randint(20000, 2000000); kw["SeedSize"] = rng.choice([1.5, 5.0, 6.5, 15.0])
        if rng.random() < 0.4:
            a = round(rng.uniform(0.005, 0.06), 4); kw["SxTopQ"] = a; kw["SxBotQ"] = round(a * rng.uniform(0.0, 1.2), 4)
        if rng.random() < 0.4:
            kw["CropType"] = rng.choice([1, 2, 3])
        if mode == 1 and rng.random() < 0.6:
            kw["YldFormCD"] = rng.choice([float(rng.randint(5, 120)), rng.randint(5, 120), rng.uniform(5, 120)])
        if mode == 2 and rng.random() < 0.4:
            kw["YldForm"] = float(rng.randint(150, 900))
        if rng.random() < 0.3:
            kw["WP"] = rng.choice([15.0, 20.0, 25.0, 33.7, 40.0, 45.0]); kw["fsink"] = round(rng.uniform(0, 1), 2)
    ctype = int(kw.get("CropType", crop_params[name]["CropType"]))
    det = int(crop_params[name]["Determinant"])
    # harvest_date None: compute_crop_calendar is called twice (read_model_parameters, compute_variables); the second call
    # reads the FloweringCD = -999 the first one wrote on a determinate crop of type 1/2 (see the report), so None is
    # used only where the two calls agree
    if variant % 2 == 1 and (ctype == 3 or det == 0):
        harvest = None
    else:
        harvest = (pd.Timestamp("1990/" + plant) + pd.Timedelta(days=rng.choice([200, 250, 300]))).strftime("%m/%d")
    cfg = {"start": start.strftime("%Y/%m/%d"), "end": end.strftime("%Y/%m/%d"), "weather": {"file": wfile, "ops": []},
           "soil": {"type": "SandyLoam", "dz": [0.1] * 12 + [0.3] * 7},      # 3.3 m: no deepening, z_cn stays a compartment boundary
           "crop": {"name": name, "planting_date": plant, "harvest_date": harvest, "kwargs": kw}}
    if variant and rng.random() < 0.5:
        cfg["co2"] = {"constant_conc": True, "current_concentration": rng.choice([300.0, 369.41, 400.0, 450.0, 550.0, 700.0, 1200.0, 2000.0, round(rng.uniform(250, 2500), 2)])}
    return cfg


def gen_init(rng, n_variants):
    cfgs = []
    for name in CROPS:
        for v in range(n_variants):
            cfgs.append(init_cfg(rng, name, v))
    res = sim.pmap(_init_job, cfgs, timeout=300)
    for cfg, r in zip(cfgs, res):
        if "ok" not in r:
            raise RuntimeError("crop_init job: " + str(r)[:600])
        inp = r["inp"]
        info = {"crop": cfg["crop"], "start": cfg["start"], "wfile": cfg["weather"]["file"]}
        name = cfg["crop"]["name"]
        if not r["ok"]:
            COV["init:" + r["err"]] += 1
            # the model needs the degree days; on a rejected thermal calendar they are recomputed outside the model run
            continue
        out = r["out"]
        COV["init:ok"] += 1; COV["init:mode%d" % inp["mode"]] += 1; COV["init:type%d" % inp["cal"][1]] += 1
        COV["init:crop:" + name] += 1
        COV["init:YldFormCD:" + out["types"][0]] += 1
        if inp["cal"][1] == 3:
            COV["init:type3:tSwitch>0" if out["tLinSwitch"] > 0 else "init:type3:tSwitch=%d" % out["tLinSwitch"]] += 1
        if inp["mode"] == 1:
            assert out["copies_ok"], info
        yield Case("crop_init", init_line(inp), init_expect(inp, out), info)


def gen_switch(rng, n):
    """SwitchGDD = 1 on calendar-day crops: the CGC / CDC conversion formulas"""
    cd = [k for k in CROPS if crop_params[k].get("CalendarType") == 1 and k not in ("SugarCane", "Cassava")]
    cfgs = []
    for i in range(n):
        name = cd[i % len(cd)]
        cfg = init_cfg(rng, name, 2)
        cfg["crop"]["kwargs"] = {"SwitchGDD": 1}
        if rng.random() < 0.5:
            cfg["crop"]["kwargs"]["SwitchGDDType"] = "median"
        plant = cfg["crop"]["planting_date"]
        cfg["crop"]["harvest_date"] = (pd.Timestamp("1990/" + plant) + pd.Timedelta(days=300)).strftime("%m/%d")
        if i % 4 != 3:
            # prepare_gdd indexes the cumulative degree days of EVERY season of the window at MaturityCD: a window that starts
            # before the planting date or ends in a season shorter than that raises IndexError (see the report); whole seasons here
            y = int(cfg["start"][:4]) + (1 if pd.Timestamp(cfg["start"][:4] + "/" + plant) < pd.Timestamp(cfg["start"]) else 0)
            st = pd.Timestamp("%d/%s" % (y, plant))
            cfg["start"] = st.strftime("%Y/%m/%d")
            cfg["end"] = (pd.Timestamp("%d/%s" % (y + rng.choice([1, 2, 3]), plant)) - pd.Timedelta(days=1)).strftime("%Y/%m/%d")
        cfgs.append(cfg)
    res = sim.pmap(_init_job, cfgs, timeout=300)
    for cfg, r in zip(cfgs, res):
        if not r.get("ok"):
            why = r.get("err") or ("IndexError@prepare_gdd" if "IndexError" in str(r.get("harness_error")) and "prepare_gdd" in str(r.get("harness_error")) else "other")
            COV["switch:rejected:" + why] += 1
            continue
        s = r["out"]["switch"]
        COV["switch:ok"] += 1
        info = {"crop": cfg["crop"], "start": cfg["start"], "wfile": cfg["weather"]["file"]}
        yield Case("cgc_gdd", " ".join(hx(s[k]) for k in ("CCx", "CC0", "MaxCanopy", "Emergence")), [hx(s["CGC"])], info)
        yield Case("cdc_gdd", " ".join(hx(s[k]) for k in ("CCx", "CDC_CD", "tCD", "tGDD")), [hx(s["CDC"])], info)


def gen(rng, n):
    COV.clear()
    yield from gen_search(rng, n)
    yield from gen_malformed(rng, max(30, n // 400))
    yield from gen_addpar(rng, max(200, n // 10))
    yield from gen_init(rng, max(2, n // 800))
    yield from gen_switch(rng, max(24, n // 400))
