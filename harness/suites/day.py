"""Day orchestration correspondence ("L2 plumbing replay", bit-exact) for Day.v.

Real simulations of /repo are run one step at a time.  For every simulated day we record
  (a) the full state object before the step, the weather row, the clock, the parameters the orchestration reads;
  (b) for each of the 19 process calls made by `solution_single_time_step` (names rebound in the namespace of
      aquacrop.timestep.run_single_timestep): the ARGUMENTS it received (the state fields it reads, snapshotted at the
      time of the call) and its RESULT (the fields it writes);
  (c) the state after the step, the three table rows and the summary row if one was written.
The extracted model (`Day.day_core` run through `Clock.day_step`) is run with `Procs := replay` (every abstract
process returns its recorded result) and must reproduce (c) bit for bit AND must pass to every process exactly the
arguments the Python passed (that checks the wiring).  Likewise `reset_initial_conditions` (state before / after).

One driver line per simulated day.  `SPEC`/`STATE` below are the single description of the field lists; the Coq
records of Day.v and the readers/printers of drv_day.ml follow the same order."""
import collections, json, time
import numpy as np
import pandas as pd
from common import *
from l1 import Case
import sim

install_libm_proxy()
import aquacrop.core as core
import aquacrop.timestep.run_single_timestep as RST
import aquacrop.timestep.update_time as UT

# ---------------------------------------------------------------------------------------------------------------
# token encoders
def eF(x): return hx(float(x))
def eZ(x): return str(int(x))
def eB(x): return tb(bool(x))
def eFL(x): return tl(np.asarray(x, dtype=float).ravel())
def eOF(x): return "N" if x is None else "S " + hx(float(x))
def eOB(x): return "N" if x is None else "S " + tb(bool(x))
ENC = {"F": eF, "Z": eZ, "B": eB, "FL": eFL, "OF": eOF, "OB": eOB}

# the state object minus the three clock fields (dap, crop_mature, harvest_flag: Clock.v's St carries them)
STATE = [("age_days", "F"), ("age_days_ns", "F"), ("aer_days", "F"), ("aer_days_comp", "FL"), ("irr_cum", "F"),
         ("delayed_gdds", "F"), ("delayed_cds", "Z"), ("pct_lag_phase", "F"), ("t_early_sen", "F"), ("gdd_cum", "F"),
         ("day_submerged", "F"), ("irr_net_cum", "F"), ("e_pot", "F"), ("t_pot", "F"), ("pre_adj", "B"),
         ("crop_dead", "B"), ("germination", "B"), ("premat_senes", "B"), ("growing_season", "B"),
         ("yield_form", "B"), ("stage2", "B"), ("wt_in_soil", "OB"), ("stage", "F"), ("f_pre", "F"), ("f_post", "F"),
         ("fpost_dwn", "F"), ("fpost_upp", "F"), ("h1_cor_asum", "F"), ("h1_cor_bsum", "F"), ("f_pol", "F"),
         ("s_cor1", "F"), ("s_cor2", "F"), ("hi_ref", "F"), ("HIfinal", "F"), ("growth_stage", "Z"), ("tr_ratio", "F"),
         ("r_cor", "F"), ("canopy_cover", "F"), ("canopy_cover_adj", "F"), ("canopy_cover_ns", "F"),
         ("canopy_cover_adj_ns", "F"), ("biomass", "F"), ("biomass_ns", "F"), ("YieldPot", "F"), ("harvest_index", "F"),
         ("harvest_index_adj", "F"), ("ccx_act", "F"), ("ccx_act_ns", "F"), ("ccx_w", "F"), ("ccx_w_ns", "F"),
         ("ccx_early_sen", "F"), ("cc_prev", "F"), ("protected_seed", "B"), ("DryYield", "F"), ("FreshYield", "F"),
         ("z_root", "F"), ("cc0_adj", "F"), ("surface_storage", "F"), ("z_gw", "OF"), ("th_fc_Adj", "FL"), ("th", "FL"),
         ("thini", "FL"), ("time_step_counter", "Z"), ("precipitation", "F"), ("temp_max", "F"), ("temp_min", "F"),
         ("et0", "F"), ("sumET0EarlySen", "F"), ("gdd", "F"), ("w_surf", "F"), ("evap_z", "F"), ("w_stage_2", "F"),
         ("depletion", "F"), ("taw", "F")]
CLOCK_FIELDS = ["dap", "crop_mature", "harvest_flag"]


def enc_state(ic):
    return [ENC[t](getattr(ic, n)) for n, t in STATE]


def all_state_names(ic):
    return sorted(k for k in ic.__dict__.keys())


# ---------------------------------------------------------------------------------------------------------------
# the 19 processes: (python name, short name, args, results); an arg/result is (name, type, extractor)
def A(i): return lambda a: a[i]
def S(i, f): return lambda a: getattr(a[i], f)
def R(i): return lambda r: r[i]
def RS(i, f): return lambda r: getattr(r[i], f)
def RO(f): return lambda r: getattr(r, f)


def sched_fp(s):
    s = np.asarray(s, dtype=float).ravel()
    return [float(len(s)), float(np.sum(s))]


CANOPY_F = [("cc", "F", "canopy_cover"), ("cc_prev", "F", "cc_prev"), ("cc_ns", "F", "canopy_cover_ns"),
            ("cc_adj", "F", "canopy_cover_adj"), ("cc_adj_ns", "F", "canopy_cover_adj_ns"), ("ccx_act", "F", "ccx_act"),
            ("ccx_act_ns", "F", "ccx_act_ns"), ("ccx_w", "F", "ccx_w"), ("ccx_w_ns", "F", "ccx_w_ns"),
            ("cc0_adj", "F", "cc0_adj"), ("ccx_early_sen", "F", "ccx_early_sen"), ("t_early_sen", "F", "t_early_sen"),
            ("prot", "B", "protected_seed"), ("premat", "B", "premat_senes"), ("dead", "B", "crop_dead")]
HI_F = [("hi", "F", "harvest_index"), ("hiadj", "F", "harvest_index_adj"), ("preadj", "B", "pre_adj"), ("fpre", "F", "f_pre"),
        ("fpol", "F", "f_pol"), ("scor1", "F", "s_cor1"), ("scor2", "F", "s_cor2"), ("upp", "F", "fpost_upp"),
        ("dwn", "F", "fpost_dwn"), ("fpost", "F", "f_post")]
TR_IN = [("dap", "Z", "dap"), ("dcd", "Z", "delayed_cds"), ("age_days_ns", "F", "age_days_ns"), ("age_days", "F", "age_days"),
         ("ccx_w_ns", "F", "ccx_w_ns"), ("ccx_w", "F", "ccx_w"), ("cc_adj_ns", "F", "canopy_cover_adj_ns"),
         ("cc_adj", "F", "canopy_cover_adj"), ("cc_ns", "F", "canopy_cover_ns"), ("cc", "F", "canopy_cover"),
         ("cc_prev", "F", "cc_prev"), ("surf", "F", "surface_storage"), ("day_sub", "F", "day_submerged"),
         ("aer_comp", "FL", "aer_days_comp"), ("zroot", "F", "z_root"), ("th", "FL", "th"), ("t_early_sen", "F", "t_early_sen"),
         ("aer_days", "F", "aer_days"), ("rcor", "F", "r_cor"), ("irr_net_cum", "F", "irr_net_cum"),
         ("depletion", "F", "depletion"), ("taw", "F", "taw"), ("tr_ratio", "F", "tr_ratio")]
TR_OUT = [("age_days_ns", "F", "age_days_ns"), ("age_days", "F", "age_days"), ("cc", "F", "canopy_cover"),
          ("surf", "F", "surface_storage"), ("day_sub", "F", "day_submerged"), ("aer_comp", "FL", "aer_days_comp"),
          ("th", "FL", "th"), ("aer_days", "F", "aer_days"), ("irr_net_cum", "F", "irr_net_cum"), ("depletion", "F", "depletion"),
          ("taw", "F", "taw"), ("tr_ratio", "F", "tr_ratio"), ("t_pot", "F", "t_pot")]

SPEC = [
    ("growing_degree_day", "gd",
     [("method", "Z", A(0)), ("tupp", "F", A(1)), ("tbase", "F", A(2)), ("tmax", "F", A(3)), ("tmin", "F", A(4))],
     [("gdd", "F", lambda r: r)]),
    ("check_groundwater_table", "gw",
     [("zgw", "OF", A(1)), ("th", "FL", A(2)), ("fcadj", "FL", A(3)), ("wt", "Z", A(4)), ("gw", "F", A(5))],
     [("fcadj", "FL", R(0)), ("wtsoil", "OB", R(1)), ("zgw", "OF", R(2))]),
    ("root_development", "rd",
     [("crop", "CROP", A(0)), ("dap", "Z", A(2)), ("zroot", "F", A(3)), ("dcd", "Z", A(4)), ("gddcum", "F", A(5)),
      ("dgdd", "F", A(6)), ("trratio", "F", A(7)), ("th", "FL", A(8)), ("cc", "F", A(9)), ("ccns", "F", A(10)),
      ("germ", "B", A(11)), ("rcor", "F", A(12)), ("tpot", "F", A(13)), ("zgw", "OF", A(14)), ("gdd", "F", A(15)),
      ("gs", "B", A(16)), ("wt", "Z", A(17))],
     [("zroot", "F", R(0)), ("rcor", "F", R(1))]),
    ("pre_irrigation", "pi",
     [("crop", "CROP", A(1)), ("dap", "Z", S(2, "dap")), ("zroot", "F", S(2, "z_root")), ("th", "FL", S(2, "th")),
      ("gs", "B", A(3)), ("irr", "IRR", A(4))],
     [("th", "FL", RS(0, "th")), ("preirr", "F", R(1))]),
    ("drainage", "dr",
     [("th", "FL", A(1)), ("fcadj", "FL", A(2))],
     [("th", "FL", R(0)), ("deepperc", "F", R(1)), ("flux", "FL", R(2))]),
    ("rainfall_partition", "rp",
     [("rain", "F", A(0)), ("th", "FL", A(1)), ("daysub", "F", A(2)), ("srinhb", "B", A(3)), ("bunds", "B", A(4)),
      ("zbund", "F", A(5)), ("pct", "F", A(6)), ("cn", "F", A(7)), ("adjcn", "Z", A(8)), ("zcn", "F", A(9)), ("ncomp", "Z", A(10))],
     [("runoff", "F", R(0)), ("infl", "F", R(1)), ("daysub", "F", R(2))]),
    ("irrigation", "ir",
     [("method", "Z", A(0)), ("smt", "FL", A(1)), ("eff", "F", A(2)), ("maxirr", "F", A(3)), ("interval", "Z", A(4)),
      ("sched", "FL", lambda a: sched_fp(a[5])), ("depth", "F", A(6)), ("maxseason", "F", A(7)), ("stage", "Z", A(8)),
      ("irrcum", "F", A(9)), ("epot", "F", A(10)), ("tpot", "F", A(11)), ("zroot", "F", A(12)), ("th", "FL", A(13)),
      ("dap", "Z", A(14)), ("tsc", "Z", A(15)), ("crop", "CROP", A(16)), ("ztop", "F", A(18)), ("gs", "B", A(19)),
      ("rain", "F", A(20)), ("runoff", "F", A(21))],
     [("depletion", "F", R(0)), ("taw", "F", R(1)), ("irrcum", "F", R(2)), ("irr", "F", R(3))]),
    ("infiltration", "inf",
     [("surf", "F", A(1)), ("fcadj", "FL", A(2)), ("th", "FL", A(3)), ("infl", "F", A(4)), ("irr", "F", A(5)),
      ("eff", "F", A(6)), ("bunds", "B", A(7)), ("zbund", "F", A(8)), ("flux", "FL", A(9)), ("deepperc", "F", A(10)),
      ("runoff", "F", A(11)), ("gs", "B", A(12))],
     [("th", "FL", R(0)), ("surf", "F", R(1)), ("deepperc", "F", R(2)), ("runoff", "F", R(3)), ("infl", "F", R(4)), ("flux", "FL", R(5))]),
    ("capillary_rise", "cr",
     [("nlayer", "Z", A(1)), ("fshape", "F", A(2)), ("th", "FL", S(3, "th")), ("fcadj", "FL", S(3, "th_fc_Adj")),
      ("zgw", "OF", S(3, "z_gw")), ("flux", "FL", A(4)), ("wt", "Z", A(5))],
     [("th", "FL", RS(0, "th")), ("cr", "F", R(1))]),
    ("germination", "ge",
     [("germ", "B", S(0, "germination")), ("prot", "B", S(0, "protected_seed")), ("dcd", "Z", S(0, "delayed_cds")),
      ("dgdd", "F", S(0, "delayed_gdds")), ("th", "FL", S(0, "th")), ("zgerm", "F", A(1)), ("germthr", "F", A(3)),
      ("plantmethod", "F", A(4)), ("gdd", "F", A(5)), ("gs", "B", A(6))],
     [("germ", "B", RO("germination")), ("prot", "B", RO("protected_seed")), ("dcd", "Z", RO("delayed_cds")), ("dgdd", "F", RO("delayed_gdds"))]),
    ("growth_stage", "gst",
     [("crop", "CROP", A(0)), ("dap", "Z", S(1, "dap")), ("dcd", "Z", S(1, "delayed_cds")), ("gddcum", "F", S(1, "gdd_cum")),
      ("dgdd", "F", S(1, "delayed_gdds")), ("old", "Z", S(1, "growth_stage")), ("gs", "B", A(2))],
     [("stage", "Z", RO("growth_stage"))]),
    ("canopy_cover", "cc",
     [("crop", "CROP", A(0)), ("ztop", "F", A(2)), ("dap", "Z", S(3, "dap")), ("dcd", "Z", S(3, "delayed_cds")),
      ("gddcum", "F", S(3, "gdd_cum")), ("dgdd", "F", S(3, "delayed_gdds")), ("th", "FL", S(3, "th")), ("zroot", "F", S(3, "z_root"))]
     + [(n, t, S(3, f)) for n, t, f in CANOPY_F] + [("gdd", "F", A(4)), ("et0", "F", A(5)), ("gs", "B", A(6))],
     [(n, t, RO(f)) for n, t, f in CANOPY_F]),
    ("soil_evaporation", "ev",
     [("steps", "Z", A(0)), ("simoff", "B", A(1)), ("tsc", "Z", A(2)), ("zmin", "F", A(4)), ("zmax", "F", A(5)), ("rew", "F", A(6)),
      ("kex", "F", A(7)), ("fwcc", "F", A(8)), ("fwrelexp", "F", A(9)), ("fevap", "F", A(10)), ("caltype", "Z", A(11)),
      ("senescence", "F", A(12)), ("method", "Z", A(13)), ("wetsurf", "F", A(14)), ("mulches", "B", A(15)), ("fmulch", "F", A(16)),
      ("mulchpct", "F", A(17)), ("dap", "Z", A(18)), ("wsurf", "F", A(19)), ("evapz", "F", A(20)), ("stage2", "B", A(21)),
      ("th", "FL", A(22)), ("dcd", "Z", A(23)), ("gddcum", "F", A(24)), ("dgdd", "F", A(25)), ("ccxw", "F", A(26)),
      ("ccadj", "F", A(27)), ("ccxact", "F", A(28)), ("cc", "F", A(29)), ("premat", "B", A(30)), ("surf", "F", A(31)),
      ("wstage2", "F", A(32)), ("epot", "F", A(33)), ("et0", "F", A(34)), ("infl", "F", A(35)), ("rain", "F", A(36)),
      ("irr", "F", A(37)), ("gs", "B", A(38))],
     [("epot", "F", R(0)), ("th", "FL", R(1)), ("stage2", "B", R(2)), ("wstage2", "F", R(3)), ("wsurf", "F", R(4)),
      ("surf", "F", R(5)), ("evapz", "F", R(6)), ("es", "F", R(7)), ("espot", "F", R(8))]),
    ("transpiration", "tr",
     [("ncomp", "Z", A(1)), ("ztop", "F", A(2)), ("crop", "CROP", A(3)), ("method", "Z", A(4)), ("smt", "F", A(5))]
     + [(n, t, S(6, f)) for n, t, f in TR_IN]
     + [("et0", "F", A(7)), ("co2c", "F", S(8, "current_concentration")), ("co2r", "F", S(8, "ref_concentration")),
        ("gs", "B", A(9)), ("gdd", "F", A(10))],
     [("tr", "F", R(0)), ("trpot_ns", "F", R(1)), ("trpot", "F", R(2)), ("irrnet", "F", R(4))] + [(n, t, RS(3, f)) for n, t, f in TR_OUT]),
    ("groundwater_inflow", "gi",
     [("th", "FL", S(1, "th")), ("wtsoil", "OB", S(1, "wt_in_soil")), ("zgw", "OF", S(1, "z_gw"))],
     [("th", "FL", RS(0, "th")), ("gwin", "F", R(1))]),
    ("HIref_current_day", "hr",
     [("hiref", "F", A(0)), ("hifinal", "F", A(1)), ("dap", "Z", A(2)), ("dcd", "Z", A(3)), ("yf", "B", A(4)), ("pct", "F", A(5)),
      ("cc", "F", A(6)), ("ccprev", "F", A(7)), ("ccxw", "F", A(8)), ("crop", "CROP", A(9)), ("gs", "B", A(10))],
     [("hiref", "F", R(0)), ("yf", "B", R(1)), ("pct", "F", R(2))]),
    ("biomass_accumulation", "bm",
     [("crop", "CROP", A(0)), ("dap", "Z", A(1)), ("dcd", "Z", A(2)), ("hiref", "F", A(3)), ("pct", "F", A(4)), ("b", "F", A(5)),
      ("bns", "F", A(6)), ("tr", "F", A(7)), ("trpot", "F", A(8)), ("et0", "F", A(9)), ("gs", "B", A(10))],
     [("b", "F", R(0)), ("bns", "F", R(1))]),
    ("harvest_index", "hi",
     [("ztop", "F", A(1)), ("crop", "CROP", A(2))] + [(n, t, S(3, f)) for n, t, f in HI_F]
     + [("zroot", "F", S(3, "z_root")), ("th", "FL", S(3, "th")), ("t_early_sen", "F", S(3, "t_early_sen")), ("hiref", "F", S(3, "hi_ref")),
        ("dap", "Z", S(3, "dap")), ("dcd", "Z", S(3, "delayed_cds")), ("yf", "B", S(3, "yield_form")), ("b", "F", S(3, "biomass")),
        ("bns", "F", S(3, "biomass_ns")), ("cc", "F", S(3, "canopy_cover")), ("et0", "F", A(4)), ("tmax", "F", A(5)), ("tmin", "F", A(6)),
        ("gs", "B", A(7))],
     [(n, t, RO(f)) for n, t, f in HI_F]),
    ("root_zone_water", "rz",
     [("zroot", "F", A(1)), ("th", "FL", A(2)), ("ztop", "F", A(3)), ("zmin", "F", A(4)), ("aer", "F", A(5))],
     [("wr", "F", R(0)), ("drzt", "F", R(1)), ("drrz", "F", R(2)), ("tawzt", "F", R(3)), ("tawrz", "F", R(4))]),
]
PNAMES = [s[0] for s in SPEC]
_ORIG = {p: getattr(RST, p) for p in PNAMES}
_ORIG_STEP = core.solution_single_time_step
_ORIG_RESET = UT.reset_initial_conditions

# parameter structures, in the order of the Coq records DCrop / DIrr / DField / DSoil
CROP_F = [("GDDmethod", "Z"), ("Tupp", "F"), ("Tbase", "F"), ("GermThr", "F"), ("PlantMethod", "F"), ("CalendarType", "Z"),
          ("Senescence", "F"), ("YldWC", "F"), ("Maturity", "F"), ("Zmin", "F"), ("Aer", "F"), ("CC0", "F"), ("HI0", "F")]
IRR_F = [("irrigation_method", "Z"), ("SMT", "FL"), ("AppEff", "F"), ("MaxIrr", "F"), ("IrrInterval", "Z"), ("Schedule", "SCHED"),
         ("depth", "F"), ("MaxIrrSeason", "F"), ("NetIrrSMT", "F"), ("WetSurf", "F")]
FIELD_F = [("sr_inhb", "B"), ("bunds", "B"), ("z_bund", "F"), ("curve_number_adj", "B"), ("curve_number_adj_pct", "F"),
           ("mulches", "B"), ("f_mulch", "F"), ("mulch_pct", "F"), ("bund_water", "F")]
SOIL_F = [("cn", "F"), ("adj_cn", "Z"), ("z_cn", "F"), ("nComp", "Z"), ("z_top", "F"), ("nLayer", "Z"), ("fshape_cr", "F"),
          ("z_germ", "F"), ("evap_z_min", "F"), ("evap_z_max", "F"), ("rew", "F"), ("kex", "F"), ("fwcc", "F"),
          ("f_wrel_exp", "F"), ("f_evap", "F")]


def enc_struct(obj, fields, ident):
    t = [str(ident)]
    for n, ty in fields:
        v = getattr(obj, n)
        t.append(tl(sched_fp(v)) if ty == "SCHED" else ENC[ty](v))
    return t


class Ids:
    """identity of the parameter objects: crops by season index (-1 = fallow crop), IrrMngt 0 / FallowIrrMngt 1,
    FieldMngt 0 / FallowFieldMngt 1"""

    def __init__(self, ps):
        self.ps = ps

    def crop(self, c):
        ps = self.ps
        if c is ps.Fallow_Crop:
            return -1
        for k, x in enumerate(ps.Seasonal_Crop_List):
            if c is x:
                return k
        return -99

    def irr(self, i):
        return 0 if i is self.ps.IrrMngt else (1 if i is self.ps.FallowIrrMngt else -99)


class Recorder:
    def __init__(self):
        self.day = None
        self.ids = None
        self.fail_gd = False

    def install(self):
        for name, short, args, res in SPEC:
            setattr(RST, name, self._wrap(name, short, args, res))

    def uninstall(self):
        for p in PNAMES:
            setattr(RST, p, _ORIG[p])

    def _enc(self, ty, v):
        if ty == "CROP":
            return str(self.ids.crop(v))
        if ty == "IRR":
            return str(self.ids.irr(v))
        return ENC[ty](v)

    def _wrap(self, name, short, args, res):
        orig = _ORIG[name]
        rec = self

        def w(*a, **k):
            d = rec.day
            if d is None:
                return orig(*a, **k)
            if k:
                raise RuntimeError("keyword call of " + name)
            if short == "gd" and rec.fail_gd:
                raise ZeroDivisionError("injected failure of growing_degree_day")
            d["args"][short] = [rec._enc(ty, f(a)) for (_, ty, f) in args]      # snapshot BEFORE the call (in-place updates)
            r = orig(*a)
            d["res"][short] = [rec._enc(ty, f(r)) for (_, ty, f) in res]
            d["order"].append(short)
            return r
        return w


ORDER_GS = ["gd", "gw", "rd", "pi", "dr", "rp", "ir", "inf", "cr", "ge", "gst", "cc", "ev", "tr", "gi", "hr", "bm", "hi", "rz"]


def run_sim(cfg, max_days=None, fail_gd_on=None, keep=False, hook=None):
    """returns dict(days=[...], resets=[...], error=None|info).  A day: dict(line tokens, expected tokens)."""
    try:
        m = sim.build_model(cfg)
        m._initialize()
    except Exception as e:       # the configuration is rejected at initialisation: nothing to replay
        return {"days": [], "resets": [], "malformed": [], "error": dict(sim.exc_info(e), at="init")}
    cs = m._clock_struct
    ps = m._param_struct
    start = pd.Timestamp(cs.simulation_start_date)
    plant = [int((pd.Timestamp(d) - start).days) for d in cs.planting_dates]
    harv = [int((pd.Timestamp(d) - start).days) for d in cs.harvest_dates]
    rec = Recorder()
    rec.ids = Ids(ps)
    days = []
    resets = []
    malformed = []
    last = {}
    names0 = set(n for n, _ in STATE) | set(CLOCK_FIELDS)

    def step(init_cond, param_struct, clock_struct, weather_step, outputs):
        ic = init_cond
        if set(ic.__dict__.keys()) != names0:
            raise RuntimeError("state object has other attributes than STATE: %s" % sorted(set(ic.__dict__.keys()) ^ names0))
        tsc = int(clock_struct.time_step_counter); season = int(clock_struct.season_counter)
        d = {"args": {}, "res": {}, "order": [], "tsc": tsc, "season": season}
        # ---- inputs
        # the season list as the clock structure holds it NOW (Clock.v takes it as a constant of the run: a step or a
        # season reset that rewrites planting / harvest dates shows up as a changed list here)
        plant_now = [int((pd.Timestamp(d) - start).days) for d in clock_struct.planting_dates]
        harv_now = [int((pd.Timestamp(d) - start).days) for d in clock_struct.harvest_dates]
        clock = [str(tsc), str(season), eZ(ic.dap), eB(ic.crop_mature), eB(ic.harvest_flag),
                 str(len(plant_now))] + [str(x) for x in plant_now] + [str(len(harv_now))] + [str(x) for x in harv_now]
        clock0 = list(clock)
        clock += [eB(clock_struct.sim_off_season), eZ(clock_struct.evap_time_steps)]
        wt = int(param_struct.water_table)
        gwv = float(param_struct.z_gw[tsc]) if wt == 1 else 0.0
        weather = [eF(weather_step[2]), eF(weather_step[1]), eF(weather_step[0]), eF(weather_step[3]), eF(gwv)]
        crop = param_struct.Seasonal_Crop_List[season] if season >= 0 else param_struct.Fallow_Crop
        par = enc_struct(crop, CROP_F, season if season >= 0 else -99) + enc_struct(param_struct.Fallow_Crop, CROP_F, -1)
        par += enc_struct(param_struct.IrrMngt, IRR_F, 0) + enc_struct(param_struct.FallowIrrMngt, IRR_F, 1)
        par += enc_struct(param_struct.FieldMngt, FIELD_F, 0) + enc_struct(param_struct.FallowFieldMngt, FIELD_F, 1)
        par += [ENC[t](getattr(param_struct.Soil, n)) for n, t in SOIL_F]
        par += [str(wt), eF(param_struct.CO2.current_concentration), eF(param_struct.CO2.ref_concentration)]
        pre = enc_state(ic)
        if hook is not None:
            d["hook"] = hook(param_struct, clock_struct, season)
        nfinal0 = len(outputs.final_stats)
        rec.day = d
        rec.fail_gd = fail_gd_on is not None and len(days) == fail_gd_on
        try:
            r = _ORIG_STEP(init_cond, param_struct, clock_struct, weather_step, outputs)
        except ZeroDivisionError:
            # malformed stream: the first process of the day raised -> the step raises and nothing is written; on the
            # model side the same recorded day without a growing_degree_day result (the other results are placeholders)
            if rec.fail_gd and last and not d["res"]:
                line = clock + par + weather + pre + ["N"]
                for name, short, args, res in SPEC[1:]:
                    line += last[short]
                malformed.append({"line": " ".join(line), "exp": ["N"], "tsc": tsc})
            elif keep:
                malformed.append({"clock0": clock0, "weather": weather, "pre": pre, "hook": d.get("hook"), "tsc": tsc, "season": season,
                                  "exc": {"type": "ZeroDivisionError"}})
            raise
        except Exception as e:
            if keep:    # a process raised: the concrete model must be undefined on this day
                malformed.append({"clock0": clock0, "weather": weather, "pre": pre, "hook": d.get("hook"), "tsc": tsc, "season": season,
                                  "exc": sim.exc_info(e)})
            raise
        finally:
            rec.day = None
            rec.fail_gd = False
        # every process the model's day calls must have been called by the implementation's day (the in-season growing-degree-day call only
        # in a growing season): a day that skips one is structurally different from Day.v, whatever its numbers
        missing = [short for name, short, args, res in SPEC if short != "gd" and short not in d["res"]]
        if missing:
            raise StructureMismatch("PROCESS-NOT-CALLED %s on step %d" % (",".join(missing), tsc))
        last.clear(); last.update(d["res"])
        nc = r[0]
        # ---- expected outputs
        exp = [eZ(nc.dap), eB(nc.crop_mature), eB(nc.harvest_flag)] + enc_state(nc)
        nstate_toks = len(exp)
        fl = outputs.water_flux[tsc, :]; gr = outputs.crop_growth[tsc, :]; stg = outputs.water_storage[tsc, :]
        exp += [eZ(fl[0]), eZ(fl[1]), eZ(fl[2]), eF(fl[3]), ("N" if fl[4] != fl[4] else "S " + eF(fl[4]))] + [eF(x) for x in fl[5:]]
        exp += [eZ(gr[0]), eZ(gr[1]), eZ(gr[2])] + [eF(x) for x in gr[3:]]
        exp += [eZ(stg[0]), eB(stg[1] != 0), eZ(stg[2]), eFL(stg[3:])]
        if len(outputs.final_stats) > nfinal0:
            row = outputs.final_stats.loc[season].tolist()
            exp += ["S", eZ(row[0]), str(int((pd.Timestamp(row[2]) - start).days)), eZ(row[3]), eF(row[4]), eF(row[5]), eF(row[6]), eF(row[7])]
        else:
            exp += ["N"]
        if keep:
            d["raw_rows"] = (np.array(fl, dtype=float).copy(), np.array(gr, dtype=float).copy(), np.array(stg, dtype=float).copy())
            d["clock0"] = clock0; d["weather"] = weather; d["pre"] = pre; d["exp_core"] = " ".join(exp).split(); d["res_keep"] = dict(d["res"])
            d["exp_rows"] = " ".join(exp[nstate_toks:]).split()      # the three table rows and the summary row (or N)
        # the arguments each process received
        gs = "gd" in d["args"]
        for name, short, args, res in SPEC:
            if short == "gd" and not gs:
                exp += ["N"]; continue
            if short == "gd":
                exp += ["S"]
            exp += d["args"][short]
        # ---- model input line
        line = clock + par + weather + pre
        for name, short, args, res in SPEC:
            if short == "gd":
                line += (["S"] + d["res"]["gd"]) if gs else ["N"]
            else:
                line += d["res"][short]
        d["line"] = " ".join(line); d["exp"] = " ".join(exp).split()
        d["gs"] = gs; d["summary"] = len(outputs.final_stats) > nfinal0
        d["order_ok"] = d["order"] == (ORDER_GS if gs else ORDER_GS[1:])
        d["method"] = int(param_struct.IrrMngt.irrigation_method)
        fm = param_struct.FieldMngt if gs else param_struct.FallowFieldMngt
        d["flags"] = {"water_table_days": wt == 1, "irrigated_days": bool(fl[6] > 0), "net_irrigation_days": bool(gs and d["method"] == 4 and fl[6] > 0),
                      "crop_dead_days": bool(nc.crop_dead), "mature_flag_set": bool(nc.crop_mature) and not (clock[3] == "T"),
                      "off_season_after_first_planting": (not gs) and season >= 0, "bunds_days": bool(fm.bunds), "mulch_days": bool(fm.mulches),
                      "cn_adjust_days": bool(fm.curve_number_adj), "ponding_days": bool(fl[5] > 0), "runoff_days": bool(fl[8] > 0),
                      "capillary_rise_days": bool(fl[10] > 0), "gw_inflow_days": bool(fl[11] > 0), "gdd_crop_days": int(crop.CalendarType) == 2}
        del d["args"], d["res"]
        days.append(d)
        return r

    def reset(ClockStruct, InitCond, ParamStruct, weather, crop):
        ic = InitCond
        season = int(ClockStruct.season_counter)
        c = ParamStruct.Seasonal_Crop_List[season]
        line = [str(season), eB(ClockStruct.sim_off_season), eZ(ParamStruct.Soil.nComp)] + enc_struct(c, CROP_F, season) \
            + enc_struct(ParamStruct.FieldMngt, FIELD_F, 0) + [eZ(ic.dap), eB(ic.crop_mature), eB(ic.harvest_flag)] + enc_state(ic)
        caltype = int(c.CalendarType)
        r = _ORIG_RESET(ClockStruct, InitCond, ParamStruct, weather, crop)
        nc = r[0]
        exp = [eZ(nc.dap), eB(nc.crop_mature), eB(nc.harvest_flag)] + enc_state(nc)
        resets.append({"line": " ".join(line), "exp": " ".join(exp).split(), "season": season, "caltype": caltype,
                       "off": bool(ClockStruct.sim_off_season)})
        return r

    core.solution_single_time_step = step
    UT.reset_initial_conditions = reset
    rec.install()
    err = None; structure = None
    try:
        n = 0
        while not m._clock_struct.model_is_finished:
            m.run_model(num_steps=1, initialize_model=False)
            n += 1
            if max_days and n >= max_days:
                break
    except Exception as e:      # the implementation's own verdict; the days before it are still compared
        err = sim.exc_info(e)
        if isinstance(e, StructureMismatch):
            structure = str(e)
    finally:
        rec.uninstall()
        core.solution_single_time_step = _ORIG_STEP
        UT.reset_initial_conditions = _ORIG_RESET
    out = {"days": days, "resets": resets, "error": err, "malformed": malformed, "structure": structure}
    if keep:      # what the whole-run suite (runc) compares at the end: clock and state after the last update_time
        ic = m._init_cond
        out["n_steps"] = int(len(cs.time_span))
        # the tables the USER gets (get_water_flux / get_crop_growth / get_water_storage after the conversion to DataFrames) must
        # hold, row for row and bit for bit, what each step wrote (NaN = NaN); the rows of steps that were never simulated stay 0
        out["final_tables_differ"] = None
        if err is None and m._clock_struct.model_is_finished:
            try:
                F = np.asarray(m.get_water_flux().values, dtype=float); G = np.asarray(m.get_crop_growth().values, dtype=float)
                S = np.asarray(m.get_water_storage().values, dtype=float)
                same = lambda a, b: a.shape == b.shape and bool(np.all((a == b) | (np.isnan(a) & np.isnan(b))))
                for d in days:
                    fl0, gr0, st0 = d["raw_rows"]; t = d["tsc"]
                    for nm, T, r0 in (("water_flux", F, fl0), ("crop_growth", G, gr0), ("water_storage", S, st0)):
                        if not same(np.asarray(T[t], dtype=float), r0):
                            k = int(np.argmax(~((T[t] == r0) | (np.isnan(T[t]) & np.isnan(r0)))))
                            out["final_tables_differ"] = "%s row %d column %d: the step wrote %r, the final table holds %r" % (nm, t, k, float(r0[k]), float(T[t][k]))
                            break
                    if out["final_tables_differ"]:
                        break
                simulated = set(d["tsc"] for d in days)
                if not out["final_tables_differ"]:
                    for t in range(F.shape[0]):
                        if t not in simulated and (np.any(F[t] != 0) or np.any(G[t] != 0)):
                            out["final_tables_differ"] = "row %d was never simulated but is not empty in the final tables" % t
                            break
            except Exception as e:
                out["final_tables_differ"] = "reading the final tables raised %s: %s" % (type(e).__name__, str(e)[:120])
        out["final"] = " ".join([eZ(cs.time_step_counter), eZ(cs.season_counter), eB(cs.model_is_finished),
                                 eZ(ic.dap), eB(ic.crop_mature), eB(ic.harvest_flag)] + enc_state(ic)).split()
    return out


class StructureMismatch(Exception):
    """the implementation's day did not call a process that the model's day calls"""


# ---------------------------------------------------------------------------------------------------------------
def _canon(toks):
    return [canon(t) for t in toks]


def worker(payload):
    """one simulation: record, replay through the driver, compare.  json-able result."""
    cfg = payload["cfg"]
    o = run_sim(cfg, payload.get("max_days"))
    lines = ["day " + d["line"] for d in o["days"]] + ["reset " + r["line"] for r in o["resets"]]
    res = {"days": len(o["days"]), "resets": len(o["resets"]), "error": o["error"], "bad": [], "agree": 0,
           "gs_days": sum(1 for d in o["days"] if d["gs"]), "summaries": sum(1 for d in o["days"] if d["summary"]),
           "pre_season_days": sum(1 for d in o["days"] if d["season"] < 0), "order_bad": sum(1 for d in o["days"] if not d["order_ok"]),
           "method": o["days"][0]["method"] if o["days"] else None,
           "resets_gdd": sum(1 for r in o["resets"] if r["caltype"] == 2), "resets_off": sum(1 for r in o["resets"] if r["off"])}
    for d in o["days"]:
        for k, v in d["flags"].items():
            if v:
                res[k] = res.get(k, 0) + 1
    if not lines:
        if o.get("structure"):
            res["bad"] = [{"kind": "structure", "what": o["structure"], "cfg": cfg}]; res["disagree"] = 1
        return res
    outs = run_driver(lines, unit="day")
    items = [("day", d) for d in o["days"]] + [("reset", r) for r in o["resets"]]
    for (kind, d), got in zip(items, outs):
        e = _canon(d["exp"]); g = _canon(got)
        if e == g and (kind == "reset" or d["order_ok"]):
            res["agree"] += 1
        elif len(res["bad"]) < 3:
            k = next((i for i, (x, y) in enumerate(zip(e, g)) if x != y), min(len(e), len(g)))
            res["bad"].append({"kind": kind, "tsc": d.get("tsc"), "season": d.get("season"), "first_diff_token": k,
                               "impl": e[max(0, k - 3):k + 4], "model": g[max(0, k - 3):k + 4], "n_impl": len(e), "n_model": len(g),
                               "order_ok": d.get("order_ok", True), "cfg": cfg})
        else:
            res["bad"].append(None)
    if o.get("structure"):
        res["bad"].insert(0, {"kind": "structure", "what": o["structure"], "cfg": cfg})
    res["disagree"] = len(res["bad"])
    res["bad"] = [b for b in res["bad"] if b][:3]
    return res


def matrix_configs(n, name="day"):
    """n random valid configurations covering every irrigation method, bunds/mulches, water table, off-season, multi-season"""
    cfgs = []
    for i in range(n):
        rng = rng_for("cfg", name, i)
        force = {}
        force["method"] = i % 6
        if i % 5 == 0: force["bunds"] = True
        if i % 5 == 1: force["mulches"] = True
        if i % 4 == 0: force["gw"] = True
        if i % 3 == 0: force["off_season"] = True
        if i % 3 == 1: force["off_season"] = False
        if i % 7 == 0: force["seasons"] = 3
        if i % 7 == 1: force["seasons"] = 2
        if i % 11 == 0: force["start_mode"] = "before"
        cfgs.append(sim.gen_config(rng, **force))
    return cfgs


def run_l2(nsims=None, name="day", timeout=300):
    """the correspondence suite (same result keys as l1.run_suite)"""
    t0 = time.time()
    if nsims is None:
        nsims = 350 if TIER == "quick" else 1500
    cfgs = matrix_configs(nsims, name)
    res = sim.pmap(worker, [{"cfg": c} for c in cfgs], timeout=timeout)
    tot = collections.Counter(); bad = []; errs = collections.Counter(); meth = collections.Counter(); herr = []
    for c, r in zip(cfgs, res):
        if r.get("hang") or r.get("harness_error"):
            herr.append(r.get("harness_error", "hang")[-500:]); continue
        for k, v in r.items():
            if isinstance(v, int) and not isinstance(v, bool) and k != "method":
                tot[k] += v
        meth[r.get("method")] += 1
        if r.get("error"):
            errs["%s@%s" % (r["error"]["type"], r["error"]["origin"])] += 1
        bad += r.get("bad", [])
    cov = {"simulations": len(cfgs), "by_irrigation_method": dict(meth), "bunds": sum(1 for c in cfgs if (c.get("field") or {}).get("bunds")),
           "mulches": sum(1 for c in cfgs if (c.get("field") or {}).get("mulches")), "water_table": sum(1 for c in cfgs if c.get("gw")),
           "off_season": sum(1 for c in cfgs if c.get("off_season")), "multi_season_resets": tot["resets"],
           "implementation_exceptions": dict(errs), "harness_errors": herr[:3], **{k: tot[k] for k in tot}}
    return {"suite": name, "cases": tot["days"] + tot["resets"], "distinct": tot["days"] + tot["resets"], "agree": tot["agree"],
            "disagree": tot["disagree"] + len(herr), "by_function": {"day": tot["days"], "reset": tot["resets"]}, "coverage": cov,
            "error": ("harness errors: %d" % len(herr)) if herr else None,
            "total_s": round(time.time() - t0, 1), "mismatches": bad[:10], "samples": [{"cfg": cfgs[0]}]}


def gen(rng, n):
    """l1-style stream: the days (and resets) of as many random simulations as needed for n cases, then a small
    malformed stream"""
    nm = max(2, n // 500) if n >= 100 else 0
    yield from _gen_valid(rng, n - nm)
    yield from gen_malformed(rng, nm)


def _gen_valid(rng, n):
    k = 0; i = 0; nstruct = 0
    while k < n:
        cfg = sim.gen_config(rng_for("cfg", "day-gen", rng.random(), i), method=i % 6); i += 1
        o = run_sim(cfg)
        for d in o["days"]:
            if k >= n: return
            yield Case("day", d["line"], d["exp"], {"cfg": cfg, "tsc": d["tsc"]}); k += 1
        for r in o["resets"]:
            if k >= n: return
            yield Case("reset", r["line"], r["exp"], {"cfg": cfg, "season": r["season"]}); k += 1
        if o.get("structure"):       # the implementation's day skipped a process the model's day calls: reported as a case the model cannot match
            yield Case("structure", o["structure"].replace(" ", "_"), ["EVERY-PROCESS-OF-THE-MODEL-DAY-IS-CALLED"], {"cfg": cfg, "what": o["structure"]}); k += 1
            nstruct += 1
            if nstruct >= 12: return


def gen_malformed(rng, n):
    """kind="malformed": a process raises (growing_degree_day, the first call of an in-season day, is rebound to raise):
    the implementation's step raises and writes nothing; the model's replay has no result for that call and signals an
    error.  (The orchestration itself has no raising path: its only index operations, Seasonal_Crop_List[season] and
    z_gw[step], are made with indices maintained by the clock, which is Clock.v's unit.)"""
    k = 0; i = 0
    while k < n and i < 4 * n + 8:
        cfg = sim.gen_config(rng_for("cfg", "day-mal", rng.random(), i), start_mode="at", seasons=1); i += 1
        o = run_sim(cfg, max_days=40, fail_gd_on=rng.randint(1, 20))
        for d in o["malformed"]:
            if k >= n: return
            yield Case("day", d["line"], d["exp"], {"cfg": cfg, "tsc": d["tsc"]}, kind="malformed"); k += 1
