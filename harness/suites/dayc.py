"""Concrete-day correspondence ("L2c", bit-exact) for DayConcrete.v.

Same recorder as suites/day.py (real simulations of /repo run one step at a time: pre-state, weather, clock,
parameters, post-state, the three table rows, the summary row), but the model side runs `day_step_opt` with
`procs_concrete`: every process is the extracted UNIT MODEL (Kernels, Water/*, Crop/*) called through the
argument/result adapters of DayConcrete.v — no recorded process result is used.  The driver additionally needs the
full parameter objects the processes read: the soil profile (Comp list), the crop constants of every unit model
(FULL below, same field orders as the units' own L1 suites), irrigation / field structs with the real Schedule; they
are sent in a `par` line whenever they change (start of the run, season resets).

MODE: per process "C" (concrete) or "R" (recorded result replayed).  The suite runs with every process concrete; the
hybrid modes exist to localise a disagreement (`bisect`).  A day on which the real step raises must be undefined
(None) in the model."""
import collections, json, time
import numpy as np
import pandas as pd
from common import *
from l1 import Case
import sim
from suites import day
from suites.day import eF, eZ, eB, eFL, ENC, SPEC, CROP_F, IRR_F, FIELD_F, SOIL_F

SHORTS = [s[1] for s in SPEC]
ALL_C = {s: "C" for s in SHORTS}


def tprof(p):
    toks = [str(len(p.dz))]
    for i in range(len(p.dz)):
        toks += [hx(p.dz[i]), hx(p.dzsum[i]), hx(p.zMid[i]), str(int(p.Layer[i])), hx(p.th_dry[i]), hx(p.th_wp[i]), hx(p.th_fc[i]),
                 hx(p.th_s[i]), hx(p.Ksat[i]), hx(p.tau[i]), hx(p.Penetrability[i]), hx(p.aCR[i]), hx(p.bCR[i])]
    return toks


YFIELDS = ["CropType", "Determinant", "HIstartCD", "YldFormCD", "HIendCD", "FloweringCD", "CanopyDevEndCD", "tLinSwitch",
           "dHILinear", "HIGC", "HI0", "HIini", "WP", "WPy", "fCO2", "dHI_pre", "dHI0", "a_HI", "b_HI", "exc", "CCmin", "YldWC"]


def enc_full(c):
    """RootCrop, CropC, YCrop, SCrop, TrCrop, Canopy10Pct, MaxCanopy (orders of drv_roots / drv_canopy / drv_yield / drv_transp)"""
    pu = [hx(x) for x in c.p_up]; pl = [hx(x) for x in c.p_lo]; fw = [hx(x) for x in list(c.fshape_w)[:3]]
    root = [hx(c.Zmin), hx(c.Zmax), hx(c.PctZmin), hx(c.Emergence), hx(c.MaxRooting), hx(c.fshape_r), hx(c.fshape_ex),
            str(int(c.CalendarType)), hx(c.SxTop), hx(c.SxBot), hx(c.p_up[1]), hx(c.fshape_w[1])]
    can = [str(int(c.CalendarType))] + [hx(x) for x in (c.Emergence, c.Maturity, c.CanopyDevEnd, c.Senescence, c.CC0, c.CCx, c.CGC, c.CDC)] \
        + pu + pl + [str(int(c.ETadj)), hx(c.beta)] + fw
    y = [str(int(c.CropType))] + [hx(getattr(c, k)) for k in YFIELDS[1:]]
    s = [hx(c.Zmin), hx(c.Aer)] + pu + pl + [str(int(c.ETadj)), hx(c.beta)] + fw \
        + [str(int(c.PolHeatStress)), str(int(c.PolColdStress)), hx(c.Tmax_lo), hx(c.Tmax_up), hx(c.Tmin_lo), hx(c.Tmin_up), hx(c.fshape_b)]
    tr = [hx(c.MaxCanopyCD), hx(c.Kcb), hx(c.fage), hx(c.a_Tr), str(int(c.TrColdStress)), hx(c.GDD_up), hx(c.GDD_lo), hx(c.LagAer),
          hx(c.Zmin), hx(c.Aer)] + pu + pl + [str(int(c.ETadj)), hx(c.beta)] + fw + [hx(c.SxTop), hx(c.SxBot)]
    return root + can + y + s + tr + [hx(c.Canopy10Pct), hx(c.MaxCanopy)]


def enc_struct_full(obj, fields, ident):
    t = [str(ident)]
    for n, ty in fields:
        v = getattr(obj, n)
        t.append(eFL(v) if ty == "SCHED" else ENC[ty](v))
    return t


def par_hook(ps, cs, season):
    """the `par` line for the day (string)"""
    soil = ps.Soil
    t = [ENC[ty](getattr(soil, n)) for n, ty in SOIL_F] + tprof(soil.Profile)
    t += enc_struct_full(ps.IrrMngt, IRR_F, 0) + enc_struct_full(ps.FallowIrrMngt, IRR_F, 1)
    t += day.enc_struct(ps.FieldMngt, FIELD_F, 0) + day.enc_struct(ps.FallowFieldMngt, FIELD_F, 1)
    t += [str(int(ps.water_table)), eF(ps.CO2.current_concentration), eF(ps.CO2.ref_concentration), eZ(cs.evap_time_steps), eB(cs.sim_off_season)]
    crop = ps.Seasonal_Crop_List[season] if season >= 0 else ps.Fallow_Crop
    t += day.enc_struct(crop, CROP_F, season if season >= 0 else -99) + enc_full(crop)
    t += day.enc_struct(ps.Fallow_Crop, CROP_F, -1) + enc_full(ps.Fallow_Crop)
    return " ".join(t)


def day_line(d, mode):
    toks = d["clock0"] + d["weather"] + d["pre"]
    for name, short, args, res in SPEC:
        if mode.get(short, "C") == "C":
            toks.append("C")
        elif short == "gd":
            toks += ["R"] + ((["S"] + d["res_keep"]["gd"]) if "gd" in d["res_keep"] else ["N"])
        else:
            toks += ["R"] + d["res_keep"][short]
    return "dayc " + " ".join(toks)


def sim_lines(o, mode):
    """driver lines for a recorded simulation: `par` whenever the parameters changed, one `dayc` per day.
    returns (lines, index of the output line of each day, expected tokens of each day, day records)"""
    lines = []; idx = []; exps = []; recs = []
    last = None
    items = [(d["tsc"], 0, d) for d in o["days"]] + [(m["tsc"], 1, m) for m in o["malformed"] if "clock0" in m]
    for _, raised, d in sorted(items, key=lambda x: (x[1],)):      # raising day (at most one) comes last
        if d["hook"] != last:
            lines.append("par " + d["hook"]); last = d["hook"]
        if raised:
            dd = dict(d); dd["res_keep"] = {}
            lines.append(day_line(dd, ALL_C)); exps.append(["N"])
        else:
            lines.append(day_line(d, mode)); exps.append(["S"] + d["exp_core"])
        idx.append(len(lines) - 1); recs.append(d)
    return lines, idx, exps, recs


def _canon(t):
    return [canon(x) for x in t]


def compare_sim(o, mode):
    lines, idx, exps, recs = sim_lines(o, mode)
    if not lines:
        return 0, []
    outs = run_driver(lines, unit="dayc")
    ok = 0; bad = []
    for i, e, d in zip(idx, exps, recs):
        g = _canon(outs[i]); e = _canon(e)
        if e == g:
            ok += 1
        else:
            k = next((j for j, (a, b) in enumerate(zip(e, g)) if a != b), min(len(e), len(g)))
            bad.append({"tsc": d["tsc"], "season": d["season"], "first_diff_token": k, "impl": e[max(0, k - 2):k + 3], "model": g[max(0, k - 2):k + 3],
                        "n_impl": len(e), "n_model": len(g), "gs": d.get("gs")})
    return ok, bad


def field_of_token(k):
    """name of the compared quantity at token index k of an expected line (debugging aid)"""
    names = ["S", "dap", "crop_mature", "harvest_flag"]
    for n, t in day.STATE:
        names += [n] * (2 if t in ("OF", "OB") else 1) if t not in ("FL",) else [n + "[]"]
    return names[k] if k < len(names) else "rows/summary (or after a list)"


def worker(payload):
    cfg = payload["cfg"]; mode = payload.get("mode") or ALL_C
    o = day.run_sim(cfg, payload.get("max_days"), keep=True, hook=par_hook)
    ok, bad = compare_sim(o, mode)
    nraise = sum(1 for m in o["malformed"] if "clock0" in m)
    res = {"days": len(o["days"]), "raising_days": nraise, "agree": ok, "disagree": len(bad), "error": o["error"],
           "gs_days": sum(1 for d in o["days"] if d["gs"]), "summaries": sum(1 for d in o["days"] if d["summary"]),
           "pre_season_days": sum(1 for d in o["days"] if d["season"] < 0),
           "method": o["days"][0]["method"] if o["days"] else None}
    for d in o["days"]:
        for k, v in d["flags"].items():
            if v:
                res[k] = res.get(k, 0) + 1
    if o.get("structure"):
        res["disagree"] += 1
        res["first_bad"] = {"kind": "structure", "what": o["structure"], "cfg": cfg}
        return res
    if bad and payload.get("bisect", True):
        res["first_bad"] = dict(bad[0], cfg=cfg, culprit=bisect(o, bad[0]["tsc"]))
    elif bad:
        res["first_bad"] = dict(bad[0], cfg=cfg)
    return res


def bisect(o, tsc):
    """which single concrete process makes the first disagreeing day disagree: run that day with everything replayed
    except one process"""
    d = next(x for x in o["days"] if x["tsc"] == tsc)
    out = []
    o1 = {"days": [d], "malformed": []}
    allr = {s: "R" for s in SHORTS}
    ok, bad = compare_sim(o1, allr)
    if bad:
        return ["<plumbing: disagrees with every process replayed>"]
    for s in SHORTS:
        if s == "gd" and "gd" not in d["res_keep"]:
            continue
        m = dict(allr); m[s] = "C"
        ok, bad = compare_sim(o1, m)
        if bad:
            out.append(s)
    return out or ["<only in combination>"]


def matrix_configs(n, name="dayc", **force):
    cfgs = []
    for i in range(n):
        rng = rng_for("cfg", name, i)
        f = dict(force)
        f.setdefault("method", i % 6)
        if "bunds" not in force and i % 5 == 0: f["bunds"] = True
        if "mulches" not in force and i % 5 == 1: f["mulches"] = True
        if "gw" not in force and i % 4 == 0: f["gw"] = True
        if "off_season" not in force:
            if i % 3 == 0: f["off_season"] = True
            if i % 3 == 1: f["off_season"] = False
        if "seasons" not in force:
            if i % 7 == 0: f["seasons"] = 3
            if i % 7 == 1: f["seasons"] = 2
        c = sim.gen_config(rng, **f)
        if i % 6 == 4:
            c["flagtypes"] = True      # boolean options handed over as numpy.bool_ / 0 / 1 (sim.build_objects)
        cfgs.append(c)
    return cfgs


def run_l2c(nsims=None, name="dayc", timeout=400, mode=None, **force):
    t0 = time.time()
    if nsims is None:
        nsims = 300 if TIER == "quick" else 1200
    cfgs = matrix_configs(nsims, name, **force)
    res = sim.pmap(worker, [{"cfg": c, "mode": mode} for c in cfgs], timeout=timeout)
    tot = collections.Counter(); errs = collections.Counter(); meth = collections.Counter(); herr = []; bad = []; culprits = collections.Counter()
    for c, r in zip(cfgs, res):
        if r.get("hang") or r.get("harness_error"):
            herr.append(r.get("harness_error", "hang")[-600:]); continue
        for k, v in r.items():
            if isinstance(v, int) and not isinstance(v, bool) and k != "method":
                tot[k] += v
        meth[r.get("method")] += 1
        if r.get("error"):
            errs["%s@%s" % (r["error"]["type"], r["error"]["origin"])] += 1
        if r.get("first_bad"):
            bad.append(r["first_bad"])
            for s in r["first_bad"].get("culprit", []):
                culprits[s] += 1
    cov = {"simulations": len(cfgs), "by_irrigation_method": dict(meth), "implementation_exceptions": dict(errs), "harness_errors": herr[:3],
           "concrete_processes": [s for s in SHORTS if (mode or ALL_C).get(s, "C") == "C"],
           "replayed_processes": [s for s in SHORTS if (mode or ALL_C).get(s, "C") != "C"],
           "first_disagreement_culprits": dict(culprits), **{k: tot[k] for k in tot}}
    cases = tot["days"] + tot["raising_days"]
    return {"suite": name, "cases": cases, "distinct": cases, "agree": tot["agree"], "disagree": tot["disagree"] + len(herr),
            "by_function": {"dayc": cases}, "coverage": cov, "error": ("harness errors: %d" % len(herr)) if herr else None,
            "total_s": round(time.time() - t0, 1), "mismatches": bad[:10], "samples": [{"cfg": cfgs[0]}]}


def gen(rng, n):
    """l1-style stream (valid days; raising days as kind="malformed").  NOTE: the lines of one simulation must reach the
    driver in order (`par` lines set the parameters of the following days), so each Case carries its `par` line too."""
    k = 0; i = 0; nstruct = 0
    while k < n:
        cfg = sim.gen_config(rng_for("cfg", "dayc-gen", rng.random(), i), method=i % 6); i += 1
        o = day.run_sim(cfg, keep=True, hook=par_hook)
        for d in o["days"]:
            if k >= n: return
            yield Case("par", d["hook"], ["OK"], None); k += 1
            yield Case("dayc", day_line(d, ALL_C)[5:], ["S"] + d["exp_core"], {"cfg": cfg, "tsc": d["tsc"]}); k += 1
        if o.get("structure"):       # the implementation's day skipped a process the model's day calls: reported as a case the model cannot match
            yield Case("structure", o["structure"].replace(" ", "_"), ["EVERY-PROCESS-OF-THE-MODEL-DAY-IS-CALLED"], {"cfg": cfg, "what": o["structure"]}); k += 1
            nstruct += 1
            if nstruct >= 12: return
        for m in o["malformed"]:
            if "clock0" in m and k < n:
                yield Case("par", m["hook"], ["OK"], None); k += 1
                mm = dict(m); mm["res_keep"] = {}
                yield Case("dayc", day_line(mm, ALL_C)[5:], ["N"], {"cfg": cfg, "tsc": m["tsc"]}, kind="malformed"); k += 1
