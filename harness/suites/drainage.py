"""L1: drainage(prof, th_init, th_fc_Adj_init) -> (thnew, DeepPerc, FluxOut)

Streams
  valid      : profile / th / fcadj of equal length, th_dry <= th <= th_s, th_fc <= fcadj <= th_s
  valid-oob  : some th above saturation (the code then loses water at the soil surface), still compared bit for bit
  valid-degen: tau = 0 in a layer (thX = th_s + 0.01 arm) or th_fc = th_s (0/0 -> NaN, fall-through arms)
  valid-long : profile arrays longer than th (the loop only reads a prefix), empty th
  malformed  : profile or fcadj shorter than th -> IndexError

Branch coverage is measured on the real code by line tracing (sys.settrace on the code object of
aquacrop.solution.drainage.drainage); COVER counts, per tag, the number of cases in which the line ran."""
import sys, collections
import numpy as np
from common import *
from l1 import Case
from suites.profiles import *
install_libm_proxy()
from aquacrop.solution.drainage import drainage

# line numbers of /repo/aquacrop/solution/drainage.py -> branch tag
LINE_TAGS = {
    72: "A0 init th<=fcadj (dthdt=0)", 75: "A1 init th>=th_s", 78: "A1' init sat, limited to fcadj",
    81: "A2 init exp arm", 88: "A2' init exp, limited to fcadj",
    106: "B drainable", 114: "B' drainable, Ksat cap",
    119: "C storage needed", 124: "C0 thX=fcadj (dthdt<=0)", 126: "C1 thX via log", 131: "C1' thX raised to fcadj", 134: "C2 thX=th_s+0.01 (tau=0)",
    140: "D thX<=th_s", 146: "D1 thnew>thX", 149: "D1a thX<=fcadj", 151: "D1b thX>=th_s", 156: "D1c exp arm", 166: "D1c' limited", 173: "D1' Ksat cap",
    182: "D2x dead arm", 184: "D2a settle th>=th_s", 189: "D2 settle exp arm", 198: "D2' settle limited", 207: "D2'' settle Ksat cap", 214: "D3 stays <= fcadj (drainsum=0)",
    219: "E thX>th_s", 228: "E1a settle th>=th_s", 233: "E1 settle exp arm", 242: "E1' settle limited", 251: "E1'' settle Ksat cap", 255: "E2 stays <= fcadj",
    259: "F over saturation", 264: "F sat ability", 266: "F' ability limited to fcadj", 290: "F1 drainmax capped by excess", 297: "F2 Ksat cap",
    305: "P excess>0 (push-up)", 314: "P1 push-up reaches a compartment above", 321: "P2 compartment filled to th_s",
}
COVER = collections.Counter()
DEPTH = collections.Counter()      # how many compartments above the current one a push-up reached (max per case)
LOST = collections.Counter()       # cases in which excess was left at the soil surface
_code = drainage.__code__


def traced(p, th, fc):
    lines = collections.Counter()
    st = {"run": 0, "max": 0, "lost": False}

    def local(frame, event, arg):
        if event == "line":
            ln = frame.f_lineno
            lines[ln] += 1
            if ln == 305:
                st["run"] = 0
            elif ln == 314:
                st["run"] += 1
                st["max"] = max(st["max"], st["run"])
        elif event == "return":
            pass
        return local

    def glob(frame, event, arg):
        if frame.f_code is _code:
            return local
        return None

    old = sys.gettrace()
    sys.settrace(glob)
    try:
        r = drainage(p, th, fc)
    finally:
        sys.settrace(old)
    return r, lines, st


def lost_at_surface(p, th, r):
    """mm that disappeared: storage before - storage after - DeepPerc"""
    n = len(th)
    s0 = float(np.sum(th * p.dz[:n] * 1000)); s1 = float(np.sum(r[0] * p.dz[:n] * 1000))
    return s0 - s1 - float(r[1])


def gen_fcadj(rng, p):
    n = len(p.dz)
    fc = p.th_fc.copy()
    m = rng.random()
    if m < 0.45:
        pass
    elif m < 0.75:     # water-table like: rising towards saturation in the lower compartments
        k = rng.randrange(0, n)
        for i in range(k, n):
            f = min(1.0, (i - k + 1) / max(1, (n - k)) * rng.uniform(0.5, 1.5))
            fc[i] = p.th_fc[i] + f * (p.th_s[i] - p.th_fc[i])
        if rng.random() < 0.4:
            fc[n - 1] = p.th_s[n - 1]
    else:
        for i in range(n):
            c = rng.random()
            fc[i] = p.th_fc[i] if c < 0.4 else (p.th_s[i] if c < 0.55 else rng.uniform(p.th_fc[i], p.th_s[i]))
    return fc


def gen_state(rng, p, fc):
    """th biased to what drainage reacts to: wet above dry, saturated blocks, values at fcadj / th_s"""
    n = len(p.dz)
    m = rng.random()
    if m < 0.45:
        return gen_th(rng, p, fc)
    th = np.zeros(n)
    if m < 0.7:        # wet top, drier below
        k = rng.randrange(1, n + 1)
        for i in range(n):
            if i < k:
                th[i] = p.th_s[i] if rng.random() < 0.5 else rng.uniform(fc[i], p.th_s[i])
            else:
                c = rng.random()
                th[i] = rng.uniform(p.th_wp[i], fc[i]) if c < 0.5 else (fc[i] if c < 0.7 else rng.uniform(p.th_dry[i], p.th_s[i]))
    elif m < 0.9:      # (nearly) saturated everywhere
        for i in range(n):
            c = rng.random()
            th[i] = p.th_s[i] if c < 0.6 else p.th_s[i] - rng.uniform(0, 0.02) * (p.th_s[i] - p.th_fc[i])
    else:              # just above / at the adjusted field capacity
        for i in range(n):
            c = rng.random()
            th[i] = fc[i] if c < 0.3 else min(p.th_s[i], fc[i] + rng.uniform(0, 0.03))
    return th


def layered_low_k(rng):
    """profiles with a slowly draining layer under a fast one (Ksat cap, storage and push-up arms)"""
    n = rng.choice([3, 5, 8, 12])
    p = gen_profile(rng, ncomp=n)
    k = rng.randrange(1, n)
    wp, fcv, s, ks = rng.choice([(0.39, 0.54, 0.55, 2), (0.32, 0.50, 0.54, 15), (0.39, 0.54, 0.55, 35), (0.3, 0.45, 0.5, 1), (0.25, 0.4, 0.55, 5)])
    for i in range(k, n):
        p.th_wp[i] = wp; p.th_fc[i] = fcv; p.th_s[i] = s; p.th_dry[i] = wp / 2; p.Ksat[i] = ks; p.tau[i] = tau_of(ks)
        p.Layer[i] = p.Layer[k - 1] + 1
    p.th_fc_Adj = p.th_fc.copy()
    return p


def stress_profile(rng):
    """tau drawn independently of Ksat, small Ksat, wide pore space, thick compartments: the Ksat-cap arms and the
    'ability limited to fcadj' arms, which soils with tau = f(Ksat) and 0.1 m compartments rarely reach"""
    n = rng.choice([2, 3, 5, 8, 12])
    p = gen_profile(rng, ncomp=n)
    for li in sorted(set(p.Layer.tolist())):
        wp = round(rng.uniform(0.05, 0.3), 2); fcv = round(wp + rng.uniform(0.05, 0.2), 2); s = round(fcv + rng.uniform(0.02, 0.25), 2)
        ks = rng.choice([0.5, 1, 2, 5, 15, 50]); tau = rng.choice([0.05, 0.11, 0.3, 0.5, 0.75, 1.0])
        for i in range(n):
            if p.Layer[i] == li:
                p.th_wp[i] = wp; p.th_fc[i] = fcv; p.th_s[i] = s; p.th_dry[i] = wp / 2; p.Ksat[i] = ks; p.tau[i] = tau
    p.th_fc_Adj = p.th_fc.copy()
    return p


def two_layer(rng):
    """thin fast layer over thick slow compartments with a wide pore space: the 'settle' arms (lines 180-208, 224-252)
    with their Ksat cap and fcadj limit.  Returns (profile, th, fcadj)."""
    n = rng.choice([2, 2, 3, 4, 6])
    k = rng.randrange(1, n)
    p = gen_profile(rng, ncomp=n)
    dz = [rng.choice([0.05, 0.1]) if i < k else rng.choice([0.2, 0.25, 0.3]) for i in range(n)]
    p.dz = np.array(dz, dtype=float); p.dzsum = np.cumsum(p.dz).round(2); p.zBot = p.dzsum.copy(); p.z_top = p.zBot - p.dz
    p.zMid = (p.z_top + p.zBot) / 2
    top = (rng.choice([0.06, 0.1, 0.15]), rng.choice([0.13, 0.3, 0.31]), rng.choice([0.36, 0.46, 0.5]), rng.choice([500, 1200, 3000]), rng.choice([0.76, 1.0, 1.0]))
    wp = round(rng.uniform(0.05, 0.25), 2); fcv = round(wp + rng.uniform(0.05, 0.15), 2); s = round(fcv + rng.uniform(0.05, 0.3), 2)
    bot = (wp, fcv, s, rng.choice([0.5, 1, 2, 5, 15]), rng.choice([0.05, 0.11, 0.3, 0.5, 0.75, 1.0]))
    for i in range(n):
        wp_, fc_, s_, ks_, tau_ = top if i < k else bot
        p.th_wp[i] = wp_; p.th_fc[i] = fc_; p.th_s[i] = s_; p.th_dry[i] = wp_ / 2; p.Ksat[i] = ks_; p.tau[i] = tau_
        p.Layer[i] = 1 if i < k else 2
    p.th_fc_Adj = p.th_fc.copy()
    fc = p.th_fc.copy()
    hi = rng.random() < 0.5
    for i in range(k, n):
        if hi:
            fc[i] = p.th_s[i] - rng.uniform(0, 0.5) * (p.th_s[i] - p.th_fc[i]) if rng.random() < 0.8 else p.th_s[i]
    th = np.zeros(n)
    for i in range(n):
        if i < k:
            th[i] = p.th_s[i] if rng.random() < 0.6 else rng.uniform(fc[i], p.th_s[i])
        else:
            c = rng.random()
            if c < 0.4: th[i] = rng.uniform(fc[i], p.th_s[i])
            elif c < 0.6: th[i] = min(p.th_s[i], fc[i] + rng.uniform(0, 0.02))
            elif c < 0.85: th[i] = max(p.th_wp[i], fc[i] - rng.uniform(0, rng.choice([0.004, 0.03, 0.08])))   # lifted just above fcadj by the inflow
            else: th[i] = rng.uniform(p.th_fc[i], fc[i])
    if rng.random() < 0.3:
        # aim at the 'settle, ability limited to fcadj' arms: the inflow lifts compartment k to just above fcadj
        if rng.random() < 0.6:      # moderate inflow, so that thX stays below saturation
            for i in range(k):
                th[i] = fc[i] + rng.uniform(0.05, 0.6) * (p.th_s[i] - fc[i])
        ds = float(drainage(p, th[:k].copy(), fc[:k].copy())[1])
        t = fc[k] - ds / (1000 * p.dz[k]) + rng.uniform(0, 0.01)
        if p.th_dry[k] <= t <= p.th_s[k]:
            th[k] = t
    return p, th, fc


def one(rng):
    r = rng.random()
    stream = "valid"
    q = rng.random()
    if r >= 0.15 and q >= 0.85:
        p, th, fc = two_layer(rng)
        return stream, p, th, fc
    p = layered_low_k(rng) if q < 0.3 else (stress_profile(rng) if q < 0.45 else gen_profile(rng))
    n = len(p.dz)
    if r < 0.03:
        stream = "valid-degen"
        li = rng.choice(sorted(set(p.Layer.tolist())))
        how = rng.random()
        for i in range(n):
            if p.Layer[i] == li:
                if how < 0.6:
                    p.tau[i] = 0.0
                else:
                    p.th_fc[i] = p.th_s[i]
    fc = gen_fcadj(rng, p)
    if 0.3 <= q < 0.45 and rng.random() < 0.4:        # stress profiles: adjusted field capacity close to saturation
        for i in range(n):
            fc[i] = p.th_s[i] - rng.uniform(0, 0.3) * (p.th_s[i] - p.th_fc[i])
    th = gen_state(rng, p, fc)
    if 0.03 <= r < 0.09:
        stream = "valid-oob"
        for i in range(n):
            if rng.random() < 0.3:
                th[i] = p.th_s[i] + rng.choice([0.001, 0.01, 0.05, rng.uniform(0, 0.2)])
    elif 0.09 <= r < 0.12:
        stream = "valid-long"
        k = rng.randrange(0, n + 1) if rng.random() < 0.8 else 0
        th = th[:k]
        if rng.random() < 0.5:
            fc = fc[:k]
    elif 0.12 <= r < 0.15:
        stream = "malformed"
        if rng.random() < 0.5:
            k = rng.randrange(0, n)
            fc = fc[:k]
        else:
            extra = rng.randrange(1, 4)
            th = np.concatenate([th, np.full(extra, 0.3)])
            if rng.random() < 0.7:
                fc = np.concatenate([fc, np.full(extra, 0.3)])
    return stream, p, th, fc


def gen(rng, n):
    for _ in range(n):
        stream, p, th, fc = one(rng)
        th_in = th.copy(); fc_in = fc.copy()
        try:
            r, lines, st = traced(p, th, fc)
            exp = ["S"] + tl(r[0]).split() + [hx(r[1])] + tl(r[2]).split()
            COVER["stream " + stream] += 1
            if stream in ("valid", "valid-oob", "valid-degen", "valid-long"):
                for ln, tag in LINE_TAGS.items():
                    if lines.get(ln):
                        COVER[tag] += 1
                DEPTH[st["max"]] += 1
                if len(th) and lost_at_surface(p, th_in, r) > 1e-9:
                    LOST[stream] += 1
        except IndexError:
            exp = ["N"]
            COVER["stream " + stream + " (IndexError)"] += 1
        assert (th == th_in).all() and (fc == fc_in).all()       # inputs are not mutated
        line = " ".join([tprof(p), tl(th_in), tl(fc_in)])
        info = {"stream": stream, "prof": prof_info(p), "dzsum": p.dzsum.tolist(), "th": th_in.tolist(), "fcadj": fc_in.tolist()}
        yield Case("drainage", line, exp, info, "malformed" if stream == "malformed" else "valid")


def coverage_report():
    out = ["%-48s %d" % (k, v) for k, v in sorted(COVER.items())]
    out.append("push-up depth (compartments above reached): " + ", ".join("%d:%d" % kv for kv in sorted(DEPTH.items())))
    out.append("cases losing water at the surface: " + str(dict(LOST)))
    return "\n".join(out)
