"""L1: soil_evaporation (+ evap_layer_water_content).

Cases come in chains: a synthetic field is simulated for several days, the state returned by one call
(th, Stage2, Wstage2, Wsurf, SurfaceStorage, EvapZ) is the state of the next call, with rain / irrigation /
ponding / canopy development in between, so that the states are the ones the code itself produces.
`coverage(n)` replays the generator under sys.settrace and reports how often each branch of the Python
function is executed."""
import sys, collections
import numpy as np
from common import *
from l1 import Case
from suites.profiles import *
install_libm_proxy()
from aquacrop.solution.soil_evaporation import soil_evaporation
from aquacrop.solution.evap_layer_water_content import evap_layer_water_content

RAISES = (IndexError, UnboundLocalError, ZeroDivisionError)


def ccadj_of(cc):
    return (1.72 * cc) - (cc ** 2) + 0.3 * (cc ** 3)


def toks_out(r):
    epot, th, stage2, wstage2, wsurf, surf, evapz, es, espot = r
    return ["S", hx(epot)] + tl(th).split() + [tb(bool(stage2)), hx(wstage2), hx(wsurf), hx(surf), hx(evapz), hx(es), hx(espot)]


def line_of(a):
    (steps, simoff, tsc, p, zmin, zmax, rew, kex, fwcc, fwrelexp, fevap, caltype, sen, method, wetsurf, mulches, fmulch,
     mulchpct, dap, wsurf, evapz, stage2, th, dcd, gddcum, dgdd, ccxw, ccadj, ccxact, cc, premat, surf, wstage2, epot,
     et0, infl, rain, irr, gs) = a
    return " ".join([str(int(steps)), tb(simoff), str(int(tsc)), tprof(p), hx(zmin), hx(zmax), hx(rew), hx(kex), hx(fwcc),
                     hx(fwrelexp), hx(fevap), str(int(caltype)), hx(sen), str(int(method)), hx(wetsurf), tb(mulches),
                     hx(fmulch), hx(mulchpct), str(int(dap)), hx(wsurf), hx(evapz), tb(bool(stage2)), tl(th), hx(dcd),
                     hx(gddcum), hx(dgdd), hx(ccxw), hx(ccadj), hx(ccxact), hx(cc), tb(premat), hx(surf), hx(wstage2),
                     hx(et0), hx(infl), hx(rain), hx(irr), tb(gs)])


_FTE = rng_for("flagtypes", "evap")


def info_of(a, tags):
    names = ["steps", "simoff", "tsc", "prof", "zmin", "zmax", "rew", "kex", "fwcc", "fwrelexp", "fevap", "caltype", "senescence",
             "method", "wetsurf", "mulches", "fmulch", "mulchpct", "dap", "wsurf", "evapz", "stage2", "th", "delayedcds", "gddcum",
             "delayedgdds", "ccxw", "ccadj", "ccxact", "cc", "premat", "surf", "wstage2", "epot", "et0", "infl", "rain", "irr", "gs"]
    d = {}
    for k, v in zip(names, a):
        if k == "prof":
            d[k] = prof_info(v)
        elif k == "th":
            d[k] = [float(x) for x in v]
        elif isinstance(v, (bool, np.bool_)):
            d[k] = bool(v)
        elif isinstance(v, (int, np.integer)):
            d[k] = int(v)
        else:
            d[k] = float(v)
    d["tags"] = sorted(tags)
    return d


def pick_profile(rng):
    p = gen_profile(rng)
    if len(p.dz) < 4 and rng.random() < 0.75:
        p = gen_profile(rng, ncomp=rng.choice([5, 8, 12, 12, 15]))
    return p


def wet_top(rng, p, th, amount):
    """crude infiltration between two days: fill the top compartments up to a random level <= th_s"""
    for i in range(len(th)):
        if amount <= 0:
            break
        cap = (p.th_s[i] if rng.random() < 0.3 else p.th_fc[i] + rng.random() * (p.th_s[i] - p.th_fc[i]))
        room = max(0.0, (cap - th[i]) * 1000 * p.dz[i])
        d = min(room, amount)
        th[i] = th[i] + d / (1000 * p.dz[i])
        amount -= d
    return th


def gen_chain(rng, length):
    """yields (args tuple, tags) for `length` consecutive days of one synthetic field"""
    p = pick_profile(rng)
    n = len(p.dz)
    th = gen_th(rng, p)
    if rng.random() < 0.25:      # air-dry surface over anything below
        k = rng.randint(1, min(n, 3))
        for i in range(k):
            th[i] = p.th_dry[i] if rng.random() < 0.7 else p.th_dry[i] + rng.uniform(0, 0.01)
    steps = rng.choice([20, 20, 20, 20, 1, 2, 5, 50])
    simoff = rng.random() < 0.5
    zmin = rng.choice([0.15, 0.15, 0.15, 0.1, 0.2, 0.04, 0.12])
    zmax = rng.choice([0.30, 0.30, 0.30, zmin, 0.25, 0.4, round(zmin + 0.003, 3), round(zmin + rng.uniform(0, 0.3), 3)])
    if rng.random() < 0.03:
        zmax = round(zmin - 0.05, 3)
    if rng.random() < 0.7:
        rew = int(round(1000 * (p.th_fc[0] - p.th_dry[0]) * 0.04))
    else:
        rew = rng.choice([0, 0.0, 2, 9, 15, round(rng.uniform(0, 15), 1), 40])
    kex = rng.choice([1.1, 1.1, 1.1, 0.5, 1.0, 1.25])
    fwcc = rng.choice([50, 50, 50, 0, 100, 60.5])
    fwrelexp = rng.choice([0.4, 0.4, 0.4, 0.0, 1.0, 0.8])
    fevap = rng.choice([4, 4, 4, 4, 1, 2.5, 8])
    caltype = rng.choice([1, 2])
    sen = float(rng.choice([3, 6, 10, 100])) if caltype == 1 else float(rng.choice([30.0, 80.5, 150.0, 1700.0]))
    method = rng.choice([0, 0, 1, 1, 2, 3, 4, 5])
    wetsurf = rng.choice([100.0, 100.0, 30.0, 50.0, 0.0, 85.5])
    mulches = rng.random() < 0.45
    fmulch = rng.choice([0.5, 0.5, 0.0, 1.0, 0.3])
    mulchpct = rng.choice([50, 50, 0, 100, 80, 12.5])
    bunds = rng.random() < 0.35
    # state
    tsc = 0 if rng.random() < 0.3 else rng.randint(1, 400)
    dap = rng.choice([0, 1, 1, 2, 5, 40])
    gs = dap > 0 and rng.random() < 0.85
    if not gs and rng.random() < 0.5:
        dap = 0
    gddcum = float(dap) * rng.uniform(5, 20)
    dcd = rng.choice([0, 0, 0, 2, 7])
    dgdd = float(dcd) * 11.5 if rng.random() < 0.5 else 0
    cc = rng.choice([0, 0.0, 0.01, 0.3, 0.6, 0.9, 0.97, 0.99, rng.random()])
    ccx = max(cc, rng.choice([0.8, 0.96, 0.99, 0.5]))
    ccxact = cc
    ccxw = cc
    declining = False
    wsurf = rng.choice([0, 0.0, float(rew), rng.uniform(0, max(float(rew), 1.0))])
    evapz = rng.choice([zmin, zmin, zmax, round(zmin + rng.randint(0, 150) * 0.001, 3)])
    stage2 = rng.random() < 0.5
    wstage2 = rng.choice([0, 0.0, round(rng.random(), 2), round(rng.random(), 2), 1.0])
    surf = 0.0
    if bunds and rng.random() < 0.5:
        surf = rng.choice([0.0, 5e-7, 0.3, 2.0, 11.0, 60.0])
    epot = 0
    for day in range(length):
        tags = set()
        # weather and management of the day
        et0 = float(rng.choice([round(rng.uniform(0.1, 15), 1), round(rng.uniform(0.1, 15), 1), rng.uniform(0.1, 15), 5.0]))
        if rng.random() < 0.02:
            et0 = 0.0
        rain = 0.0
        if rng.random() < 0.35:
            rain = float(rng.choice([0.3, 1.0, round(rng.uniform(0, 100), 1), rng.uniform(0, 20), 100.0]))
        irr = 0
        if gs and method != 0 and rng.random() < 0.35:
            irr = float(rng.choice([10, 25.0, round(rng.uniform(0, 100), 1), rng.uniform(0, 40)]))
        src = rain + irr
        if src > 0:
            infl = float(rng.choice([0.0, src, src * rng.random(), min(src, 2.0), src * 0.9]))
        else:
            infl = 0.0 if rng.random() < 0.85 else float(rng.uniform(0, 5))
        if bunds and src > 0 and rng.random() < 0.5:
            surf = float(surf) + rng.choice([0.2, 1.5, 8.0, 30.0, src * 0.3])
        if bunds and rng.random() < 0.05:
            surf = 5e-7
        if infl > 0 and rng.random() < 0.9:
            th = wet_top(rng, p, th, infl)
        elif rng.random() < 0.05:
            th = gen_th(rng, p)
        ccadj = ccadj_of(cc) if rng.random() < 0.9 else cc
        premat = gs and rng.random() < 0.12
        a = (steps, simoff, tsc, p, zmin, zmax, rew, kex, fwcc, fwrelexp, fevap, caltype, sen, method, wetsurf, mulches, fmulch,
             mulchpct, dap, wsurf, evapz, stage2, th.copy(), dcd, gddcum, dgdd, np.float64(ccxw), np.float64(ccadj),
             np.float64(ccxact), np.float64(cc), premat, surf, wstage2, epot, et0, infl, rain, irr, gs)
        th_in = th.copy()
        try:
            aa = list(a)
            for _k in (1, 15, 30, 38):      # sim_off_season, mulches, premat_senes, growing_season: flag objects of varying dynamic type
                aa[_k] = flagtype(_FTE, aa[_k])
            r = soil_evaporation(*aa[:22], th, *aa[23:])
            exp = toks_out(r)
        except RAISES as e:
            r = None
            exp = ["N"]
            tags.add("raise:" + type(e).__name__)
        # tags (input-side branch predictors)
        if tsc == 0 or (dap == 1 and not simoff): tags.add("init")
        if (rain > 0 or (irr > 0 and method != 4)) and infl > 0: tags.add("rewet")
        tags.add("gs" if gs else "offseason")
        if gs and ccadj > 1: tags.add("ccadj>1")
        if premat: tags.add("premat")
        if mulches and surf < 1e-6: tags.add("mulch_applied")
        if irr > 0 and method != 4 and not (rain > 1 or surf > 0): tags.add("partial_wet")
        if surf > 0: tags.add("ponded")
        if zmax > zmin: tags.add("zmax>zmin")
        if r is not None:
            if np.any(r[1] > th_in + 1e-9): tags.add("overrun(th_increased)")
            if r[7] < 0: tags.add("es<0")
            if r[7] > r[8]: tags.add("es>espot")
            if r[7] > 0: tags.add("es>0")
        yield a, exp, tags, th_in, r
        if r is None:
            return
        epot, th, stage2, wstage2, wsurf, surf, evapz, es, espot = r
        # next day
        tsc += 1
        if gs:
            dap += 1
            gddcum += rng.uniform(3, 25)
            if not declining:
                cc = min(ccx, cc + rng.uniform(0, 0.35) * max(0.02, cc) + (0.02 if cc == 0 else 0))
                ccxact = max(ccxact, cc); ccxw = max(ccxw, cc)
                if rng.random() < 0.2: declining = True
            else:
                cc = max(0.0, cc - rng.uniform(0, 0.3))
                if rng.random() < 0.1:
                    ccxw = ccxw * rng.uniform(0.7, 1)
                if rng.random() < 0.12:
                    ccxw = min(1.0, ccxw * 1.3 + 0.2)   # EsPotMax below the withered-canopy EsPot
                if rng.random() < 0.05:
                    cc = ccxact * 1.05      # CC above CCxAct (mult = 0 branch)
            if rng.random() < 0.04:
                gs = False; dap = 0; cc = 0; ccxact = 0; ccxw = 0; declining = False
        elif rng.random() < 0.15:
            gs = True; dap = 1; gddcum = rng.uniform(3, 25); cc = 0.0; ccxact = 0; ccxw = 0
        if not bunds:
            surf = 0.0


def malformed(rng):
    """inputs on which the Python raises: unknown calendar type, th shorter than the profile, tiny profile"""
    g = gen_chain(rng, 1)
    a, exp, tags, th_in, r = next(g)
    a = list(a)
    a[22] = th_in
    kind = rng.choice(["caltype", "short_th", "tiny_prof"])
    if kind == "caltype":
        a[11] = rng.choice([0, 3]); a[38] = True; a[18] = max(a[18], 1)
    elif kind == "short_th":
        a[22] = th_in[:rng.randint(0, 1)]
    else:
        p = gen_profile(rng, ncomp=1)
        a[3] = p; a[22] = gen_th(rng, p); a[4] = 0.15; a[5] = 0.3; a[20] = 0.15
    th = a[22].copy()
    try:
        r = soil_evaporation(*a[:22], th, *a[23:])
        return None
    except RAISES as e:
        return Case("soil_evaporation", line_of(a), ["N"], info_of(a, {"malformed:" + kind, type(e).__name__}), kind="malformed")


def gen_elwc(rng):
    p = pick_profile(rng)
    th = gen_th(rng, p)
    if rng.random() < 0.1:
        th[0] = -0.01
    z = rng.choice([0.15, 0.3, 0.151, 0.1, 0.2, round(rng.uniform(0.01, 0.5), 3), float(p.dzsum[-1]), float(p.dzsum[-1]) + 0.01])
    try:
        r = evap_layer_water_content(th, z, p)
        exp = ["S"] + [hx(x) for x in r]
    except RAISES:
        exp = ["N"]
    return Case("evap_layer_water_content", " ".join([tprof(p), tl(th), hx(z)]), exp, {"prof": prof_info(p), "th": th.tolist(), "z": z})


def gen(rng, n):
    k = 0
    while k < n:
        u = rng.random()
        if u < 0.15:
            c = malformed(rng)
            if c is not None:
                k += 1
                yield c
            continue
        if u < 0.35:
            k += 1
            yield gen_elwc(rng)
            continue
        for a, exp, tags, th_in, r in gen_chain(rng, rng.choice([1, 3, 6, 10, 15, 25])):
            if k >= n:
                return
            k += 1
            yield Case("soil_evaporation", line_of(a), exp, info_of(a, tags))


# ---------------------------------------------------------------------------------------------------------------
BRANCH_LINES = {
    179: "init block (day 1 / first step)", 194: "init: Wstage2 < 0 clamp", 204: "rewet: Wsurf = Infl", 207: "rewet: Wsurf capped at REW",
    218: "calendar days", 220: "GDD", 230: "EsPot < 0 clamp (CC* > 1)", 234: "senescence adjustment", 236: "mult = 0 (CC > CCxAct)",
    238: "mult interpolated", 241: "mult = 1", 249: "EsPotMin clamp", 252: "EsPot raised to EsPotMin", 254: "EsPot capped at EsPotMax (sen.)",
    258: "premature senescence cap", 263: "off-season EsPot", 270: "no mulches", 273: "mulch reduction", 278: "flooded: no mulch adj.",
    286: "irrigation, surface fully wet", 289: "partial wetting (WetSurf)", 293: "no irrigation adj.", 305: "ponding covers EsPot",
    311: "ponding partly covers EsPot", 328: "stage 1 entered", 337: "stage 1: partial compartment factor", 348: "stage 1: AvW < 0 clamp",
    352: "stage 1: compartment satisfies demand", 361: "stage 1: compartment exhausted", 375: "stage 1: Wsurf reset to 0",
    380: "stage 1: prepare stage 2 (Wstage2)", 390: "stage 1: Wstage2 < 0 clamp", 396: "stage 2 entered", 420: "stage 2: layer expanded by 1 mm",
    440: "Kr > 1 clamp", 455: "stage 2: partial compartment factor", 466: "stage 2: AvW < 0 clamp (commit 4d991b1)",
    470: "stage 2: compartment satisfies demand", 479: "stage 2: compartment exhausted",
}


def coverage(n=20000):
    """replay gen() under a line tracer: {description: number of CALLS in which the line ran}"""
    code = soil_evaporation.__code__
    hits = collections.Counter()
    cur = set()

    def tr(frame, event, arg):
        if frame.f_code is not code:
            return None
        def local(frame, event, arg):
            if event == "line":
                cur.add(frame.f_lineno)
            elif event == "return":
                for l in cur:
                    hits[l] += 1
                cur.clear()
            return local
        return local
    rng = rng_for("l1", "evap")
    sys.settrace(tr)
    try:
        tags = collections.Counter()
        ncases = 0
        for c in gen(rng, n):
            ncases += 1
            for t in (c.info or {}).get("tags", []):
                tags[t] += 1
    finally:
        sys.settrace(None)
    rep = {"cases": ncases, "lines": {"%d %s" % (l, d): hits.get(l, 0) for l, d in sorted(BRANCH_LINES.items())}, "tags": dict(tags)}
    return rep
