"""Correspondence for the CO2 productivity factor: initialise the real model for (crop, concentration)
pairs and compare the season crop's fCO2 with the extracted model's fco2, bit for bit."""
import numpy as np
from common import *
from l1 import Case
import sim

install_libm_proxy()


def _job(p):
    crop, conc, wfile, start, end = p[:5]
    ref = p[5] if len(p) > 5 else None
    cfg = {"start": start, "end": end, "weather": {"file": wfile, "ops": []},
           "soil": {"type": "SandyLoam"}, "crop": {"name": crop, "planting_date": "05/01"},
           "co2": {"constant_conc": True, "current_concentration": conc}}
    if ref is not None:
        cfg["co2"]["ref_concentration"] = ref      # a user-chosen reference concentration (the factor must be 1 there, whatever it is)
    try:
        m = sim.build_model(cfg)
        m._initialize()
        c = m._param_struct.Seasonal_Crop_List[0]
        co2 = m._param_struct.CO2
        return {"ok": True, "crop": crop, "conc": float(co2.current_concentration), "ref": float(co2.ref_concentration),
                "bsted": float(c.bsted), "bface": float(c.bface), "fsink": float(c.fsink), "WP": float(c.WP), "fCO2": float(c.fCO2)}
    except Exception as e:
        return {"ok": False, "crop": crop, "exc": sim.exc_info(e)}


def gen(rng, n):
    concs = [250.0, 300.0, 369.41, 369.42, 400.0, 450.0, 549.9, 550.0, 550.1, 700.0, 1200.0, 1999.0, 2000.0, 2500.0]
    pairs = []
    crops = list(sim.CROPS)
    while len(pairs) < n:
        c = crops[len(pairs) % len(crops)]
        conc = rng.choice(concs) if rng.random() < 0.6 else round(rng.uniform(250, 2500), 2)
        ref = None
        if rng.random() < 0.4:      # non-default reference concentration, concentrations around it
            ref = rng.choice([300.0, 330.0, 350.0, 360.0, 380.0, 400.0, 450.0, round(rng.uniform(280, 520), 2)])
            if rng.random() < 0.6:
                conc = round(ref + rng.choice([0.0, 0.5, 1.0, 5.0, 20.0, 60.0, -0.5, -5.0, -40.0, rng.uniform(-60, 250)]), 3)
        pairs.append((c, conc, "champion_climate.txt", "1985/05/01", "1986/12/30", ref))
    install_libm_proxy()
    res = sim.pmap(_job, pairs, timeout=60)
    for r in res:
        if not r.get("ok"):
            continue
        line = " ".join(hx(r[k]) for k in ("conc", "ref", "bsted", "bface", "fsink", "WP"))
        yield Case("fco2", line, [hx(r["fCO2"])], {k: r[k] for k in ("crop", "conc", "ref", "fsink", "WP")})
