"""L1: check_groundwater_table, capillary_rise, groundwater_inflow (unit `gw`, model Water/Groundwater.v)

The state object NewCond is a SimpleNamespace carrying exactly the fields the functions read
(th, th_fc_Adj, z_gw, wt_in_soil); arrays are copied before the call because the code mutates them.

`coverage(n)` re-runs the generator under sys.settrace and reports, per source line of the three
functions, the number of generated cases that executed it (branch coverage of the generator)."""
import math, types, sys, collections
import numpy as np
from common import *
from l1 import Case
from suites.profiles import *
install_libm_proxy()
from aquacrop.solution.check_groundwater_table import check_groundwater_table
from aquacrop.solution.capillary_rise import capillary_rise
from aquacrop.solution.groundwater_inflow import groundwater_inflow

ERR = (IndexError, UnboundLocalError, AssertionError, ZeroDivisionError)


def cr_params(thwp, thfc, ths, Ksat):
    """aCR, bCR exactly as aquacrop/entities/soil.py add_capillary_rise_params chooses them (V7 soil classes)"""
    lk = math.log(Ksat)
    sandy = (-0.3112 - Ksat / 100000, -1.4936 + 0.2416 * lk)
    loamy = (-0.4986 + 9 * Ksat / 100000, -2.1320 + 0.4778 * lk)
    sandy_clayey = (-0.5677 - 4 * Ksat / 100000, -3.7189 + 0.5922 * lk)
    silty_clayey = (-0.6366 + 8 * Ksat / 10000, -1.9165 + 0.7063 * lk)
    if ths <= 0.55:
        if thwp >= 0.20:
            return silty_clayey if (ths >= 0.49 and thfc >= 0.40) else sandy_clayey
        if thfc < 0.23:
            return sandy
        if thwp > 0.16 and Ksat < 100:
            return sandy_clayey
        if thwp < 0.06 and thfc < 0.28 and Ksat > 750:
            return sandy
        return loamy
    return silty_clayey


def gen_gw_profile(rng):
    """profile with capillary-rise parameters: 65 % by soil class as soil.py does, 35 % the generic
    (sandy-class) formula of profiles.gen_profile"""
    p = gen_profile(rng, water_table=True)
    if rng.random() < 0.65:
        for i in range(len(p.dz)):
            a, b = cr_params(p.th_wp[i], p.th_fc[i], p.th_s[i], p.Ksat[i])
            p.aCR[i] = a; p.bCR[i] = b
    r = rng.random()
    if r < 0.08:      # a coarse layer with th_fc <= 0.1 (Xmax = 1 m branch)
        li = rng.choice(list(p.Layer)); fc = rng.choice([0.1, 0.08, 0.06])
        for i in range(len(p.dz)):
            if p.Layer[i] == li:
                p.th_wp[i] = 0.03; p.th_dry[i] = 0.015; p.th_fc[i] = fc; p.th_s[i] = 0.3; p.th_fc_Adj[i] = fc
    elif r < 0.11:    # degenerate layer th_fc == th_s (the `th_fc >= th_s` branch of check_groundwater_table)
        li = rng.choice(list(p.Layer))
        for i in range(len(p.dz)):
            if p.Layer[i] == li:
                p.th_s[i] = p.th_fc[i]
    return p


def gen_zgw(rng, p):
    """water table depth: 0.1 .. 30 m, inside / just below / far below the profile, on compartment mid-points and bottoms"""
    tot = float(p.dzsum[-1])
    m = rng.choice(["in", "in", "in", "below", "below", "far", "mid", "mid", "bot", "any", "near_mid"])
    if m == "in": z = rng.uniform(0.1, max(tot, 0.11))
    elif m == "below": z = tot + rng.uniform(0.0, 4.5)
    elif m == "far": z = rng.uniform(tot + 2, 30.0)
    elif m == "mid": z = float(rng.choice(list(p.zMid)))
    elif m == "bot": z = float(rng.choice(list(p.dzsum)))
    elif m == "near_mid": z = float(rng.choice(list(p.zMid))) + rng.choice([1, 1, 1, -1]) * rng.choice([1e-4, 1e-3, 4e-3, 0.01, 0.02])
    else: z = rng.uniform(0.1, 30.0)
    if rng.random() < 0.5:
        z = round(z, rng.choice([1, 2, 2, 3]))
    return np.float64(max(z, 0.0))


def real_fcadj(p, zgw):
    return check_groundwater_table(p, None, None, p.th_fc_Adj.copy(), 1, zgw)[0]


def gen_fcadj(rng, p, zgw):
    r = rng.random()
    if r < 0.8:
        return real_fcadj(p, zgw)
    if r < 0.9:
        return p.th_fc.copy()
    return np.array([rng.uniform(p.th_fc[i], p.th_s[i]) for i in range(len(p.dz))])


def gen_flux(rng, p):
    n = len(p.dz)
    m = rng.choice(["zero", "zero", "zero", "top", "small", "rand"])
    if m == "zero": return np.zeros(n)
    if m == "top":          # drainage reached only the upper compartments
        k = rng.randint(0, n)
        return np.array([rng.uniform(0.01, 20) if i < k else 0.0 for i in range(n)])
    if m == "small":        # around the round(FluxOut*1000) == 0 threshold
        return np.array([rng.choice([0.0, 0.0, 0.0004, 0.0005, 0.00051, 0.0015, 0.0003, rng.uniform(0, 0.002)]) for _ in range(n)])
    return np.array([rng.choice([0.0, rng.uniform(0, 5)]) for _ in range(n)])


def case_check(rng, mal):
    p = gen_gw_profile(rng)
    fc0 = p.th_fc_Adj.copy() if rng.random() < 0.7 else np.array([rng.uniform(p.th_fc[i], p.th_s[i]) for i in range(len(p.dz))])
    wt = 1 if rng.random() < 0.9 else 0
    zgw = gen_zgw(rng, p)
    if mal:
        wt = 1; zgw = np.float64(rng.choice([-1.0, -0.001, float("nan"), -999.0]))
    try:
        fc, wts, z = check_groundwater_table(p, np.float64(0.0), None, fc0.copy(), wt, zgw)
        exp = ["S"] + tl(fc).split() + (["N"] if wts is None else ["S", tb(wts), hx(z)])
    except ERR:
        exp = ["N"]
    line = " ".join([tprof(p), tl(fc0), str(wt), hx(zgw)])
    return Case("check_groundwater_table", line, exp, {"prof": prof_info(p), "fc0": fc0.tolist(), "wt": wt, "z_gw": float(zgw)},
                "malformed" if mal else "valid")


def case_cr(rng, mal):
    p = gen_gw_profile(rng)
    zgw = gen_zgw(rng, p)
    fcadj = gen_fcadj(rng, p, zgw)
    th = gen_th(rng, p, fcadj)
    r = rng.random()
    if r < 0.25:     # just below adjusted field capacity: the round(.,4) of the room decides
        for i in range(len(th)):
            if rng.random() < 0.7:
                th[i] = fcadj[i] - rng.choice([2e-5, 4.9e-5, 5e-5, 5.1e-5, 6e-5, 9e-5, 1e-4, 1.5e-4, 3e-4, 1e-3, rng.uniform(0, 2e-4)])
    elif r < 0.4:    # dry profile: every compartment has room, MaxCR decides
        for i in range(len(th)):
            th[i] = rng.uniform(p.th_dry[i], min(fcadj[i], p.th_fc[i]))
    flux = gen_flux(rng, p)
    fshape = 16 if rng.random() < 0.8 else rng.choice([0, 1, 2.5, 8, 30, -1, 0.5])
    wt = 1 if rng.random() < 0.93 else 0
    nl = int(p.Layer[-1])
    if mal:
        k = rng.choice(["wt", "layer"])
        if k == "wt": wt = rng.choice([2, -1, 3])
        else: wt = 1; nl = nl + rng.choice([1, 2, -1])
    nc = types.SimpleNamespace(th=th.copy(), th_fc_Adj=fcadj.copy(), z_gw=zgw)
    try:
        nc2, cr = capillary_rise(p, nl, fshape, nc, flux.copy(), wt)
        exp = ["S"] + tl(nc2.th).split() + [hx(cr)]
    except ERR:
        exp = ["N"]
    line = " ".join([tprof(p), str(nl), hx(fshape), tl(th), tl(fcadj), hx(zgw), tl(flux), str(wt)])
    return Case("capillary_rise", line, exp,
                {"prof": prof_info(p), "aCR": p.aCR.tolist(), "bCR": p.bCR.tolist(), "nLayer": nl, "fshape_cr": fshape, "th": th.tolist(),
                 "th_fc_Adj": fcadj.tolist(), "z_gw": float(zgw), "FluxOut": flux.tolist(), "wt": wt}, "malformed" if mal else "valid")


def case_gwin(rng, mal):
    p = gen_gw_profile(rng)
    zgw = gen_zgw(rng, p)
    th = gen_th(rng, p, real_fcadj(p, zgw))
    wts = bool(np.any(p.zMid >= zgw))
    if rng.random() < 0.05:
        wts = False
    if mal:
        if rng.random() < 0.5:
            zgw = np.float64(float(p.zMid[-1]) + rng.uniform(0.01, 3)); wts = True      # table below every mid-point
        else:
            zgw = np.float64(float(p.zMid[rng.randrange(len(th))])); wts = True; th = th[:-1]  # th shorter than the profile
    nc = types.SimpleNamespace(th=th.copy(), wt_in_soil=wts, z_gw=zgw)
    try:
        nc2, g = groundwater_inflow(p, nc)
        exp = ["S"] + tl(nc2.th).split() + [hx(g)]
    except ERR:
        exp = ["N"]
    line = " ".join([tprof(p), tl(th), tb(wts), hx(zgw)])
    return Case("groundwater_inflow", line, exp, {"prof": prof_info(p), "th": th.tolist(), "wt_in_soil": wts, "z_gw": float(zgw)},
                "malformed" if mal else "valid")


def gen(rng, n):
    for _ in range(n):
        r = rng.random()
        mal = rng.random() < 0.02
        if r < 0.25: yield case_check(rng, mal)
        elif r < 0.8: yield case_cr(rng, mal)
        else: yield case_gwin(rng, mal)


# ---------------------------------------------------------------------------------------
def coverage(n=20000):
    """number of generated cases executing each line of the three functions (and per-case outcome classes)"""
    import l1
    files = {}
    for f in (check_groundwater_table, capillary_rise, groundwater_inflow):
        files[f.__code__.co_filename] = f.__name__
    hit = collections.Counter()
    cur = set()

    def tracer(frame, event, arg):
        fn = files.get(frame.f_code.co_filename)
        if fn is None:
            return None
        def local(fr, ev, a):
            if ev == "line":
                cur.add((fn, fr.f_lineno))
            return local
        return local

    rng = rng_for("l1", "gw")
    g = gen(rng, n)
    ncase = collections.Counter()
    cls = collections.Counter()
    while True:
        cur.clear()
        sys.settrace(tracer)
        try:
            c = next(g)
        except StopIteration:
            sys.settrace(None)
            break
        sys.settrace(None)
        ncase[c.fn] += 1
        for k in cur:
            hit[k] += 1
        if c.fn == "capillary_rise" and c.expect[0] == "S" and c.kind == "valid":
            cr = unhx(c.expect[-1])
            k = int(c.expect[1])
            th1 = [unhx(x) for x in c.expect[2:2 + k]]
            th0 = c.info["th"]
            nchg = sum(1 for a, b in zip(th0, th1) if a != b)
            cls["cr>0" if cr > 0 else "cr=0"] += 1
            cls["cr: compartments changed = %s" % (nchg if nchg < 3 else "3+")] += 1
            if any(b != a and b > s for a, b, s in zip(th0, th1, c.info["prof"]["th_s"])): cls["cr: a changed th' > th_s"] += 1
            if any(b != a and b > f for a, b, f in zip(th0, th1, c.info["th_fc_Adj"])): cls["cr: a changed th' > fcadj"] += 1
        if c.expect[0] == "N": cls[c.fn + " raises (%s)" % c.kind] += 1
    return ncase, hit, cls
