"""L1: infiltration (aquacrop/solution/infiltration.py) against Water/Infiltration.v

Inputs: random profiles (suites.profiles, with extra low-Ksat layers so that the back-up loop and the
surface-runoff branches fire), water contents from gen_th (mostly passed through the real `drainage`
first, whose FluxOut/DeepPerc feed the call exactly as run_single_timestep does), Infl 0..300 mm incl. 0,
tiny and negative, Irr 0..80, AppEff 50..100, bunds on/off with z_bund (mm, as FieldMngt stores it) in
{0, 0.0005, 0.001, 0.05 .. 200}, ponded water 0..z_bund and > 0 with bunds off (bund-removal day).

`coverage(n)` traces the Python function and reports how many cases execute each branch."""
import sys
import numpy as np
from common import *
from l1 import Case
from suites.profiles import *
install_libm_proxy()
from aquacrop.solution.infiltration import infiltration
from aquacrop.solution.drainage import drainage

ZBUNDS = [0.0, 0.0005, 0.001, 0.0011, 0.05, 0.1, 0.2, 1.0, 5.0, 50.0, 100.0, 200.0]
ERRS = (IndexError, AssertionError, UnboundLocalError, ZeroDivisionError)


def low_ksat(rng, p):
    """make one soil layer (sometimes the top one) poorly conductive"""
    layers = sorted(set(p.Layer.tolist()))
    which = layers[0] if rng.random() < 0.4 else rng.choice(layers)
    k = rng.choice([1, 2, 2, 5, 15, 15, 35])
    for i in range(len(p.dz)):
        if p.Layer[i] == which:
            p.Ksat[i] = k
            p.tau[i] = tau_of(k)


def gen_inputs(rng):
    p = gen_profile(rng)
    if rng.random() < 0.35:
        low_ksat(rng, p)
    n = len(p.dz)
    fcadj = p.th_fc.copy()
    if rng.random() < 0.25:  # adjusted field capacity near a water table: between fc and s at the bottom
        k = rng.randint(0, n - 1)
        for i in range(k, n):
            fcadj[i] = p.th_fc[i] + rng.choice([0.0, 1.0, rng.random()]) * (p.th_s[i] - p.th_fc[i])
    th = gen_th(rng, p, fcadj)
    u = rng.random()
    if u < 0.7:      # the day loop: drainage first, its outputs feed infiltration
        th, dp0, flux = drainage(p, th, fcadj)
        dp0 = float(dp0)
    elif u < 0.9:    # no preceding drainage
        flux = np.zeros(n)
        dp0 = rng.choice([0.0, 0.0, round(rng.uniform(0, 30), 2)])
    else:            # arbitrary outflows within [0, Ksat]
        flux = np.array([rng.choice([0.0, 1.0, rng.random()]) * p.Ksat[i] for i in range(n)])
        dp0 = float(flux[-1])
    k0 = float(p.Ksat[0])
    infl = rng.choice([0.0, 0.0, 1e-9, 1e-3, k0, rng.uniform(0, 3), rng.uniform(0, 30), rng.uniform(0, 30),
                       rng.uniform(0, 300), rng.uniform(0, 300), float(rng.randint(0, 300)), -rng.uniform(0, 5)])
    irr = rng.choice([0.0, 0.0, 0.0, 25.0, rng.uniform(0, 80), float(rng.randint(0, 80))])
    eff = rng.choice([100.0, 100.0, 90.0, 75.0, 50.0, rng.uniform(50, 100)])
    gs = rng.random() < 0.7
    bunds = rng.random() < 0.55
    zb = rng.choice(ZBUNDS)
    if bunds and zb > 0.001:
        surf = rng.choice([0.0, 0.0, zb, rng.uniform(0, zb), rng.uniform(0, zb)])
        if rng.random() < 0.04:
            surf = zb * rng.uniform(1, 2)       # bunds lowered since yesterday
    else:
        surf = rng.choice([0.0, 0.0, 0.0, rng.uniform(0, 100), rng.uniform(0, 1), zb])
    ro0 = rng.choice([0.0, 0.0, rng.uniform(0, 20), rng.uniform(0, 150)])
    return p, float(surf), fcadj, th, float(infl), float(irr), float(eff), bunds, float(zb), flux, float(dp0), float(ro0), gs


def malform(rng, a):
    """turn a valid argument tuple into one on which the Python may raise"""
    p, surf, fcadj, th, infl, irr, eff, bunds, zb, flux, dp0, ro0, gs = a
    m = rng.choice(["nan_infl", "neg_irr", "nan_bund", "short_fc", "short_flux", "short_th", "long_th", "empty"])
    if m == "nan_infl":
        infl = float("nan")
    elif m == "neg_irr":
        irr, gs, infl = -rng.uniform(1, 50), True, rng.choice([0.0, 1.0, 100.0])
    elif m == "nan_bund":
        bunds, zb = True, float("nan")
    elif m == "short_fc":
        fcadj = fcadj[:rng.randint(0, len(fcadj) - 1)]
    elif m == "short_flux":
        flux = flux[:rng.randint(0, len(flux) - 1)]
    elif m == "short_th":
        th = th[:rng.randint(0, len(th) - 1)]
    elif m == "long_th":
        th = np.concatenate([th, th[-1:], th[-1:]])
    elif m == "empty":
        p = SoilProfile(0)
        th = th[:0]; fcadj = fcadj[:0]; flux = flux[:0]
    return (p, surf, fcadj, th, infl, irr, eff, bunds, zb, flux, dp0, ro0, gs), m


_FT = rng_for("flagtypes", "infiltration")


def run_py(a):
    p, surf, fcadj, th, infl, irr, eff, bunds, zb, flux, dp0, ro0, gs = a
    try:
        r = infiltration(p, surf, fcadj.copy(), th.copy(), infl, irr, eff, flagtype(_FT, bunds), zb, flux.copy(), dp0, ro0, flagtype(_FT, gs))
    except ERRS as e:
        return ["N"], type(e).__name__
    th1, s1, dp, ro, inf, fl = r
    return ["S"] + tl(th1).split() + [hx(s1), hx(dp), hx(ro), hx(inf)] + tl(fl).split(), None


def encode(a):
    p, surf, fcadj, th, infl, irr, eff, bunds, zb, flux, dp0, ro0, gs = a
    return " ".join([tprof(p), hx(surf), tl(fcadj), tl(th), hx(infl), hx(irr), hx(eff), tb(bunds), hx(zb), tl(flux),
                     hx(dp0), hx(ro0), tb(gs)])


def info_of(a, extra=None):
    p, surf, fcadj, th, infl, irr, eff, bunds, zb, flux, dp0, ro0, gs = a
    d = {"prof": prof_info(p), "surf": surf, "fcadj": list(map(float, fcadj)), "th": list(map(float, th)), "infl": infl,
         "irr": irr, "eff": eff, "bunds": bunds, "zbund": zb, "flux": list(map(float, flux)), "dp0": dp0, "ro0": ro0, "gs": gs}
    if extra:
        d["malformation"] = extra
    return d


def gen(rng, n):
    for i in range(n):
        a = gen_inputs(rng)
        m = None
        if rng.random() < 0.03:
            a, m = malform(rng, a)
        exp, err = run_py(a)
        yield Case("infiltration", encode(a), exp, info_of(a, m), "malformed" if err else "valid")


# ---------------------------------------------------------------------------------------
# branch coverage of the implementation over the generated stream (line tracing)
BRANCH_LINES = {
    "gs_irrigation": 98, "bunds_on": 107, "bunds_infltot_pos": 110, "bunds_ksat_limited": 113, "bunds_all_infiltrates": 118,
    "bunds_overtop_ini": 125, "bunds_no_overtop_ini": 130, "bunds_nothing": 134,
    "nobunds_block": 139, "nobunds_ksat_limited": 142, "nobunds_all_infiltrates": 147,
    "loop_entered": 161, "comp_unsat_ability": 177, "theta0_fcadj_nonpos": 178, "theta0_log": 185, "theta0_capped_s": 189,
    "theta0_floor_fcadj": 191, "comp_saturated_ability": 196, "drainmax_ksat_limited": 205, "diff_pos": 212,
    "store_overflow": 215, "store_all": 219, "excess_neg_clamped": 228, "backup_entered": 235, "backup_iter": 240,
    "backup_cascade": 250, "backup_stored": 255, "backup_to_runoff": 259, "no_infiltration": 266,
    "runoff_gt_ini": 274, "pond_backup_runoff": 277, "pond_overtop_final": 281, "pond_keeps_all": 286,
}


def coverage(n=20000, name="infiltration"):
    import collections
    rng = rng_for("l1", name)
    code = infiltration.__code__
    hits = collections.Counter()
    deep = collections.Counter()
    cur = set()
    backup_iters = [0]

    def tracer(frame, event, arg):
        if frame.f_code is not code:
            return None

        def local(frame, event, arg):
            if event == "line":
                cur.add(frame.f_lineno)
                if frame.f_lineno == 240:
                    backup_iters[0] += 1
            return local
        return local

    nvalid = nerr = 0
    for i in range(n):
        a = gen_inputs(rng)
        if rng.random() < 0.03:
            a, m = malform(rng, a)
        cur.clear(); backup_iters[0] = 0
        sys.settrace(tracer)
        try:
            exp, err = run_py(a)
        finally:
            sys.settrace(None)
        if err:
            nerr += 1
            hits["raises_" + err] += 1
            continue
        nvalid += 1
        for k, ln in BRANCH_LINES.items():
            if ln in cur:
                hits[k] += 1
        if backup_iters[0] >= 2:
            deep["backup_ge2_iters"] += 1
        if backup_iters[0] >= 5:
            deep["backup_ge5_iters"] += 1
        th1 = exp[2:2 + int(exp[1])]
        if float(unhx(exp[2 + int(exp[1]) + 3])) < 0:
            deep["infl_reported_negative"] += 1
        if float(unhx(exp[2 + int(exp[1]) + 1])) > a[10]:
            deep["deep_perc_added"] += 1
    return {"cases": n, "valid": nvalid, "raising": nerr, "branches": dict(hits), "extra": dict(deep)}
