"""Correspondence suite (bit-exact) for the unit `initialise` (Init/Initialise.v): AquaCropModel._initialize() as one function of the
USER'S CONFIGURATION, and the whole simulation started from it.

Configurations come from sim.gen_config.  The USER OBJECTS (sim.build_objects + the AquaCropModel constructor, before any
`_initialize()`) are encoded into one `config` driver line (`enc_config`): start / end date, the whole weather table, the Soil object
(compartment thicknesses, the add_layer / add_layer_from_texture calls observed while it is built, its scalars), the Crop object's
attributes, the initial water content, irrigation / field managements, groundwater observations, the CO2 object, the off-season flag.
NOTHING of the implementation's initialised structures reaches the model.  Compared, bit for bit:
  (a) `initialise`: the model's Init against the real `_initialize()` — the `par` tokens of season 0 exactly as dayc.par_hook encodes the
      real ParamStruct, the clock (number of steps, planting / harvest steps, initial season counter, off-season flag), the weather
      record of EVERY step (matrix row + z_gw), the initial state (day.enc_state);
  (a') `season k`: the parameters as they are on the days of every season the real run reaches (recorded run, dayc.par_hook on the first
      day of the season: crop of the season after reset_initial_conditions, CO2 concentration of the season);
  (b) `run_config`: the three daily tables, the summary rows and the final clock / state of the whole simulation (as suites/runc.py
      compares them, expected tokens from runc.sim_lines), the model starting from the configuration alone.
A configuration the model does not cover is counted as `skipped:<reason>`.  `STAGE` = the highest stage of TASK_INITIALISE.md the suite
lets through (1: calendar-day crops, built-in soils, no groundwater, default CO2, methods 0/1/2/5; 2: + custom / texture soils, every
initial-water-content type, field managements, methods 3/4; 3: + groundwater, user CO2; 4: + thermal-time crops)."""
import collections, json, time, os
import numpy as np
import pandas as pd
from common import *
from l1 import Case

install_libm_proxy()
import aquacrop.entities.soil as _soilmod
if not isinstance(_soilmod.np, NpProxy):
    _soilmod.np = NpProxy(np)          # np.log of add_capillary_rise_params / the pedotransfer go to libm like everywhere else
import sim
from suites import day, dayc, runc
from aquacrop.core import AquaCropModel
from aquacrop.entities.soil import Soil

STAGE = int(os.environ.get("INITIALISE_STAGE", "4"))
N_FULL = 105
WCOLS = {"Date": 0, "MinTemp": 1, "MaxTemp": 2, "Precipitation": 3, "ReferenceET": 4}

CROP_Z = ["CropType", "CalendarType", "SwitchGDD", "GDDmethod", "ETadj", "PolHeatStress", "PolColdStress", "TrColdStress"]
CROP_F = ["PlantMethod", "Determinant", "Tupp", "Tbase", "GermThr", "YldWC", "Zmin", "Zmax", "Aer", "LagAer", "PctZmin", "fshape_r",
          "fshape_ex", "fshape_b", "SxTopQ", "SxBotQ", "SeedSize", "PlantPop", "CCx", "CDC", "CGC", "CDC_CD", "CGC_CD", "Kcb", "fage",
          "a_Tr", "WP", "WPy", "fsink", "bsted", "bface", "HI0", "HIini", "dHI_pre", "a_HI", "b_HI", "dHI0", "exc", "CCmin", "beta",
          "p_up1", "p_up2", "p_up3", "p_up4", "p_lo1", "p_lo2", "p_lo3", "p_lo4", "fshape_w1", "fshape_w2", "fshape_w3",
          "Tmax_up", "Tmax_lo", "Tmin_up", "Tmin_lo", "GDD_up", "GDD_lo",
          "EmergenceCD", "MaxRootingCD", "SenescenceCD", "MaturityCD", "HIstartCD", "FloweringCD", "YldFormCD",
          "Emergence", "MaxRooting", "Senescence", "Maturity", "HIstart", "Flowering", "YldForm"]


class Unencodable(Exception):
    pass


def ordinal(ts):
    return pd.Timestamp(ts).toordinal()


# ---------------------------------------------------------------------------------------------------------------
# the user's objects
def build_user(cfg):
    """(model object built by the public constructor — NOT initialised —, the add_layer / add_layer_from_texture calls made while the
    Soil was built, the dz list the Soil was built from)"""
    calls = []
    depth = [0]
    o_add, o_tex = Soil.add_layer, Soil.add_layer_from_texture

    def spy_add(self, *a):
        if depth[0] == 0:
            calls.append(["H"] + [float(x) for x in a])
        return o_add(self, *a)

    def spy_tex(self, *a):
        calls.append(["X"] + [float(x) for x in a])
        depth[0] += 1
        try:
            return o_tex(self, *a)
        finally:
            depth[0] -= 1

    Soil.add_layer, Soil.add_layer_from_texture = spy_add, spy_tex
    try:
        objs = sim.build_objects(cfg)
    finally:
        Soil.add_layer, Soil.add_layer_from_texture = o_add, o_tex
    m = AquaCropModel(**objs)
    return m, calls


def enc_date(s):
    p = str(s).split("/")
    if len(p) != 3:
        raise Unencodable("date " + str(s))
    return [str(int(x)) for x in p]


def enc_md(s):
    p = str(s).split("/")
    if len(p) != 2:
        raise Unencodable("month/day " + str(s))
    return [str(int(x)) for x in p]


def enc_weather(df):
    cols = list(df.columns)
    ids = [WCOLS.get(c, 5 + i) for i, c in enumerate(cols)]
    toks = [str(len(cols))] + [str(i) for i in ids] + [str(len(df))]
    colv = []
    for c, i in zip(cols, ids):
        v = df[c].values
        if np.issubdtype(v.dtype, np.datetime64):
            colv.append(["D %d" % ordinal(x) for x in pd.DatetimeIndex(v)])
        else:
            colv.append(["X " + hx(float(x)) for x in v])
    lab = {}
    for r, l in enumerate(df.index):
        toks.append(str(lab.setdefault(l, len(lab))))
        toks += [cv[r] for cv in colv]
    return toks


def enc_soil(soil, calls):
    # the thicknesses the DataFrame was created from (create_df stores them unrounded; add_layer does not touch them)
    dz = [float(x) for x in soil.profile.dz.values]
    t = [tl(dz), str(len(calls))]
    for c in calls:
        t += [c[0]] + [hx(x) for x in c[1:]]
    t += [hx(soil.cn), str(int(soil.calc_cn)), str(int(soil.adj_rew)), hx(soil.rew), hx(soil.evap_z_surf), hx(soil.evap_z_min), hx(soil.evap_z_max),
          hx(soil.kex), hx(soil.f_evap), hx(soil.f_wrel_exp), hx(soil.fwcc), hx(soil.z_cn), hx(soil.z_germ), str(int(soil.adj_cn)),
          hx(soil.fshape_cr), hx(soil.z_top)]
    if int(soil.nLayer) != len(calls):
        raise Unencodable("nLayer")
    return t


def enc_crop(c):
    t = enc_md(c.planting_date) + (["N"] if c.harvest_date is None else ["S"] + enc_md(c.harvest_date))
    for a in CROP_Z:
        v = getattr(c, a)
        if float(v) != int(v):
            raise Unencodable("crop." + a)
        t.append(str(int(v)))
    for a in CROP_F:
        v = getattr(c, a)
        if v is None:
            raise Unencodable("crop.%s is None" % a)
        t.append(hx(float(v)))
    return t


def enc_iwc(w):
    t = [w.wc_type, w.method, tl([float(x) for x in w.depth_layer]), str(len(w.value))]
    if w.wc_type not in ("Prop", "Pct", "Num") or w.method not in ("Layer", "Depth"):
        raise Unencodable("iwc kind")
    for v in w.value:
        if w.wc_type == "Prop":
            t.append(str(v) if str(v) in ("SAT", "FC", "WP") else "OTHER")
        else:
            t.append("V " + hx(float(v)))
    return t


def enc_irr(i):
    m = int(i.irrigation_method)
    t = [str(m), tl([float(x) for x in i.SMT]), hx(i.AppEff), hx(i.MaxIrr), str(int(i.IrrInterval))]
    if m == 3:
        sch = i.Schedule
        t.append(str(len(sch)))
        for d, x in zip(pd.DatetimeIndex(sch.Date), sch.Depth.values):
            t += [str(ordinal(d)), hx(float(x))]
    else:
        t.append("0")
    t += [hx(i.depth), hx(i.MaxIrrSeason), hx(i.NetIrrSMT), hx(i.WetSurf)]
    return t


def enc_field(o):
    return [tb(o.mulches), tb(o.bunds), tb(o.curve_number_adj), tb(o.sr_inhb), hx(o.mulch_pct), hx(o.f_mulch), hx(o.z_bund),
            hx(o.bund_water), hx(o.curve_number_adj_pct)]


def enc_gw(g):
    if g.water_table not in ("Y", "N"):
        raise Unencodable("water_table flag")
    ds = [ordinal(pd.Timestamp(d)) for d in g.dates]
    if len(ds) != len(g.values):
        raise Unencodable("gw lengths")
    t = [tb(g.water_table == "Y"), str({"Constant": 0, "Variable": 1}.get(g.method, 2)), str(len(ds))]
    for d, v in zip(ds, g.values):
        t += [str(d), hx(float(v))]
    return t


def enc_co2(c):
    data = c.co2_data
    t = [hx(c.ref_concentration), hx(c.current_concentration), tb(c.constant_conc is True), str(len(data))]
    for y, p in zip(data.year, data.ppm):
        t += [str(int(y)), hx(float(p))]
    return t


def enc_config(m, calls):
    t = enc_date(m.sim_start_time) + enc_date(m.sim_end_time) + enc_weather(m.weather_df) + enc_soil(m.soil, calls) + enc_crop(m.crop)
    t += enc_iwc(m.initial_water_content) + enc_irr(m.irrigation_management) + enc_field(m.field_management)
    t += enc_field(m.fallow_field_management) + enc_gw(m.groundwater) + enc_co2(m.co2_concentration) + [tb(bool(m.off_season))]
    return " ".join(t)


# ---------------------------------------------------------------------------------------------------------------
# which stage a configuration belongs to
def stage_of(cfg):
    from aquacrop.entities.crops.crop_params import crop_params
    cp = dict(crop_params[cfg["crop"]["name"]]); cp.update(cfg["crop"].get("kwargs") or {})
    if int(cp.get("SwitchGDD", 0)) == 1:
        return 9, "switch_gdd"
    if int(cp.get("CalendarType", 2)) == 2:
        return 4, "thermal_time_crop"
    if cfg.get("gw"):
        return 3, "groundwater"
    if cfg.get("co2"):
        return 3, "user_co2"
    s = cfg["soil"]
    if s["type"] == "custom":
        return 2, "custom_soil"
    w = cfg.get("iwc")
    if w and not (w["wc_type"] == "Prop" and w["method"] == "Layer"):
        return 2, "iwc_type"
    if cfg.get("field") or cfg.get("fallow_field"):
        return 2, "field_management"
    if (cfg.get("irr") or {}).get("irrigation_method", 0) in (3, 4):
        return 2, "irrigation_method_3_4"
    return 1, "stage1"


def features(cfg):
    f = {}
    st, why = stage_of(cfg)
    f["stage%d" % st] = 1
    s = cfg["soil"]
    f["soil_" + ("texture" if s.get("texture_layers") else "custom" if s["type"] == "custom" else "builtin")] = 1
    if s.get("dz") and s["type"] != "custom": f["builtin_soil_with_user_dz"] = 1
    for k in ("calc_cn", "adj_rew", "adj_cn", "z_cn", "z_germ"):
        if k in s.get("kwargs", {}): f["soil_kw_" + k] = 1
    w = cfg.get("iwc")
    f["iwc_" + ("default" if not w else w["wc_type"] + "_" + w["method"])] = 1
    f["irr_method_%d" % (cfg.get("irr") or {}).get("irrigation_method", 0)] = 1
    fl = cfg.get("field") or {}
    for k in ("bunds", "mulches", "curve_number_adj", "sr_inhb"):
        if fl.get(k): f["field_" + k] = 1
    if cfg.get("fallow_field"): f["fallow_field_management"] = 1
    g = cfg.get("gw")
    if g: f["gw_%s_%s" % (g["method"], "1obs" if len(g["dates"]) == 1 else "nobs")] = 1
    c = cfg.get("co2")
    if c: f["co2_constant_" + ("given" if c.get("current_concentration") else "from_table")] = 1
    if cfg.get("off_season"): f["off_season"] = 1
    if "GDDmethod" in (cfg["crop"].get("kwargs") or {}): f["GDDmethod_%d" % cfg["crop"]["kwargs"]["GDDmethod"]] = 1
    return f


# ---------------------------------------------------------------------------------------------------------------
def expected_init(cfg):
    """the real _initialize(): (tokens | None, exception info | None)"""
    m = sim.build_model(cfg)
    try:
        m._initialize()
    except Exception as e:
        return None, sim.exc_info(e), None
    ps, cs, ic = m._param_struct, m._clock_struct, m._init_cond
    start = pd.Timestamp(cs.simulation_start_date)
    plant = [int((pd.Timestamp(d) - start).days) for d in cs.planting_dates]
    harv = [int((pd.Timestamp(d) - start).days) for d in cs.harvest_dates]
    t = ["S"] + dayc.par_hook(ps, cs, 0).split()
    t += [str(len(cs.time_span)), str(len(plant))] + [str(x) for x in plant] + [str(len(harv))] + [str(x) for x in harv]
    t += [str(int(cs.season_counter)), tb(bool(cs.sim_off_season))]
    wt = int(ps.water_table)
    W = m._weather
    t.append(str(len(W)))
    for k in range(len(W)):
        r = W[k]
        t += [hx(r[2]), hx(r[1]), hx(r[0]), hx(r[3]), hx(float(ps.z_gw[k]) if wt == 1 else 0.0)]
    t += " ".join(day.enc_state(ic)).split()
    extra = {"n_steps": len(cs.time_span), "weather_rows": len(W), "seasons": len(plant), "season0": int(cs.season_counter),
             "clock_defaults": bool(ic.dap == 0 and ic.crop_mature is False and ic.harvest_flag is False),
             "deepened": bool(len(ps.Soil.Profile.dz) and list(np.round(m.soil.profile.dz.values, 2)) != [round(float(x), 2) for x in (cfg["soil"].get("dz") or list(ps.Soil.Profile.dz))])}
    return t, None, extra


ERR_CLASS = {  # implementation exception (type, raise site) -> model error name prefix
}


def first_diff(e, g):
    k = next((i for i, (a, b) in enumerate(zip(e, g)) if a != b), min(len(e), len(g)))
    return {"first_diff_token": k, "impl": e[max(0, k - 2):k + 3], "model": g[max(0, k - 2):k + 3], "n_impl": len(e), "n_model": len(g)}


def par_field(k, ncomp, nsmt=4, nsched=0):
    """name of the token k of a par line (debugging aid)"""
    names = [n for n, _ in day.SOIL_F] + ["ncomp"]
    for i in range(ncomp):
        names += ["comp%d.%s" % (i, x) for x in ("dz", "dzsum", "zMid", "Layer", "th_dry", "th_wp", "th_fc", "th_s", "Ksat", "tau", "pen", "aCR", "bCR")]
    return names[k] if k < len(names) else "after-profile+%d" % (k - len(names))


def worker(payload):
    """one configuration: (a) initialise, (a') seasons, (b) run_config"""
    cfg = payload["cfg"]
    res = {"drawn": 1, "features": features(cfg)}
    st, why = stage_of(cfg)
    if st > payload.get("stage", STAGE):
        res["skipped"] = "skipped:" + why
        return res
    try:
        m, calls = build_user(cfg)
        line = "config " + enc_config(m, calls)
    except Unencodable as e:
        res["skipped"] = "skipped:unencodable:" + str(e)
        return res
    exp_init, err, extra = expected_init(cfg)
    lines = [line, "initialise"]
    if exp_init is None:
        outs = run_driver(lines, unit="initialise")
        got = outs[1]
        res["rejected"] = "%s@%s" % (err["type"], err["origin"])
        res["model_error"] = " ".join(got[:2])
        if got[:1] == ["N"]:
            res["init_agree"] = 1; res["rejected_agree"] = 1
        else:
            res["init_disagree"] = 1
            res["first_bad"] = {"what": "initialise: implementation raises, model does not", "impl": err, "cfg": cfg}
        return res
    res["accepted"] = 1
    # the recorded run
    o = day.run_sim(cfg, None, keep=True, hook=dayc.par_hook)
    seasons = {}
    for d in o["days"]:
        if d["season"] >= 0 and d["season"] not in seasons:
            seasons[d["season"]] = d["hook"].split()
    ks = sorted(seasons)
    lines += ["season %d" % k for k in ks]
    rl, exp_run = runc.sim_lines(o)
    if rl is not None and exp_run is None and o.get("error") and "reset_initial_conditions" in str(o["error"].get("origin")):
        # the season reset raises (outside the processes of a day): the run stops there; everything written before is compared
        exp_run = ["X", o["final"][1], str(len(o["days"]))]
        sums = []
        for d in o["days"]:
            r = d["exp_rows"]
            if r[-1] == "N":
                exp_run += ["|"] + r[:-1]
            else:
                exp_run += ["|"] + r[:-8]; sums.append(r[-7:])
        exp_run += ["#", str(len(sums))]
        for s_ in sums:
            exp_run += s_
        res["reset_raises"] = 1
    do_run = rl is not None and exp_run is not None and exp_run[0] != "CLOCK-PARAMETERS-CHANGED-WHILE-STEPPING"
    if do_run:
        lines.append("run_config")
    outs = run_driver(lines, unit="initialise")
    if outs[0] != ["OK"]:
        res["skipped"] = "skipped:driver:" + " ".join(outs[0])[:80]
        return res
    # (a)
    e = [canon(x) for x in exp_init]; g = [canon(x) for x in outs[1]]
    if e == g:
        res["init_agree"] = 1
    else:
        res["init_disagree"] = 1
        fd = first_diff(e, g)
        fd["par_field"] = par_field(fd["first_diff_token"] - 1, extra["n_steps"] and int(e[4]) if len(e) > 4 else 0)
        res["first_bad"] = dict(fd, what="initialise", cfg=cfg)
    for k, v in extra.items():
        if isinstance(v, bool) and v: res["init_" + k] = 1
    if extra["weather_rows"] != extra["n_steps"]: res["weather_rows_differ_from_steps"] = 1
    # (a')
    for j, k in enumerate(ks):
        e = [canon(x) for x in ["S"] + seasons[k][:-(14 + N_FULL)]]; g = [canon(x) for x in outs[2 + j][:-(14 + N_FULL)]]
        if e == g:
            res["season_agree"] = res.get("season_agree", 0) + 1
            if k > 0: res["later_season_agree"] = res.get("later_season_agree", 0) + 1
        else:
            res["season_disagree"] = res.get("season_disagree", 0) + 1
            if "first_bad" not in res:
                res["first_bad"] = dict(first_diff(e, g), what="season %d" % k, cfg=cfg)
    # (b)
    if not do_run:
        res["run_skipped"] = "skipped:" + ("implementation_raises_outside_a_day:%s@%s" % (o["error"]["type"], o["error"]["origin"]) if o.get("error") else
                                           "clock_parameters_changed" if exp_run else "nothing_simulated")
    else:
        e = [canon(x) for x in exp_run]; g = [canon(x) for x in outs[-1]]
        if e[0] == "X" and g[0] == "X" and len(g) == 2:
            e = e[:2]; res["reset_raises_after_another_stop"] = 1
        if e[0] == "X": res["reset_raises_compared"] = 1
        res["days"] = len(o["days"])
        res["stopped_runs"] = int(e[0] == "P")
        if e == g:
            res["run_agree"] = 1
            res["run_days_agree"] = len(o["days"])
            for d in o["days"]:
                for k, v in d["flags"].items():
                    if v: res["days_" + k] = res.get("days_" + k, 0) + 1
            res["run_seasons"] = len(ks); res["run_resets"] = len(o["resets"])
            res["run_resets_gdd"] = sum(1 for r in o["resets"] if r["caltype"] == 2)
            res["run_summaries"] = sum(1 for d in o["days"] if d["summary"])
        else:
            res["run_disagree"] = 1
            if "first_bad" not in res:
                res["first_bad"] = dict(runc.where(e, g), what="run_config", cfg=cfg)
    return res


def simplify(cfg, stage):
    """strip from a drawn configuration the features above `stage` (used to obtain enough configurations of the lower stages:
    the natural share of stage-1 configurations in the matrix of sim.gen_config is about 2 %)"""
    from aquacrop.entities.crops.crop_params import crop_params
    cfg = json.loads(json.dumps(cfg, default=float))
    if stage < 4:
        nm = cfg["crop"]["name"]
        if int(crop_params[nm].get("CalendarType", 2)) == 2:
            base = nm.replace("GDD", "").replace("_1dec", "").replace("_UK", "").replace("Long", "").replace("Hyd", "").replace("Local", "").replace("Champion", "")
            cfg["crop"]["name"] = base if base in crop_params and int(crop_params[base].get("CalendarType", 2)) == 1 else "Maize"
            cfg["crop"]["kwargs"] = {k: v for k, v in (cfg["crop"].get("kwargs") or {}).items() if k != "GDDmethod"}
    if stage < 3:
        cfg["gw"] = None; cfg["co2"] = None
    if stage < 2:
        s = cfg["soil"]
        if s["type"] == "custom":
            cfg["soil"] = {"type": "Loam", "kwargs": {k: v for k, v in s.get("kwargs", {}).items() if k not in ("cn", "rew")}}
        cfg["iwc"] = {"wc_type": "Prop", "method": "Layer", "depth_layer": [1, 2] if cfg["soil"]["type"] in ("Paddy", "ac_TunisLocal") else [1],
                      "value": ["FC", "FC"] if cfg["soil"]["type"] in ("Paddy", "ac_TunisLocal") else ["FC"]} if cfg.get("iwc") and not (cfg["iwc"]["wc_type"] == "Prop" and cfg["iwc"]["method"] == "Layer") else cfg.get("iwc")
        cfg["field"] = None; cfg["fallow_field"] = None
        if (cfg.get("irr") or {}).get("irrigation_method", 0) in (3, 4):
            cfg["irr"] = {"irrigation_method": 0}
    return cfg


def configs(n, name="initialise", simplify_to=None, **force):
    cfgs = dayc.matrix_configs(n, name, **force)
    if simplify_to is not None:
        cfgs = [simplify(c, simplify_to) for c in cfgs]
    return cfgs


def run_l3(nsims=None, name="initialise", timeout=900, stage=None, simplify_to=None, **force):
    """the correspondence suite (same result keys as l1.run_suite)"""
    t0 = time.time()
    if nsims is None:
        nsims = 200 if TIER == "quick" else 900
    stage = STAGE if stage is None else stage
    cfgs = configs(nsims, name, simplify_to=simplify_to, **force)
    res = sim.pmap(worker, [{"cfg": c, "index": i, "stage": stage} for i, c in enumerate(cfgs)], timeout=timeout)
    tot = collections.Counter(); feats = collections.Counter(); skipped = collections.Counter(); rej = collections.Counter()
    herr = []; bad = []; agree_feats = collections.Counter(); stage_tab = collections.defaultdict(collections.Counter)
    for c, r in zip(cfgs, res):
        if r.get("hang") or r.get("harness_error"):
            herr.append(str(r.get("harness_error", "hang"))[-700:]); continue
        for k, v in r.items():
            if isinstance(v, int) and not isinstance(v, bool):
                tot[k] += v
        st = "stage%d" % stage_of(c)[0]
        stage_tab[st]["drawn"] += 1
        for k in ("accepted", "init_agree", "init_disagree", "run_agree", "run_disagree", "season_agree", "season_disagree"):
            stage_tab[st][k] += r.get(k, 0)
        if r.get("skipped"): skipped[r["skipped"]] += 1; stage_tab[st]["skipped"] += 1
        if r.get("run_skipped"): skipped["run:" + r["run_skipped"]] += 1
        if r.get("rejected"): rej["%s -> model %s" % (r["rejected"], r.get("model_error"))] += 1; stage_tab[st]["rejected"] += 1
        for k in r.get("features", {}): feats[k] += 1
        if r.get("run_agree"):
            for k in r.get("features", {}): agree_feats[k] += 1
        if r.get("first_bad"): bad.append(r["first_bad"])
    disagree = tot["init_disagree"] + tot["run_disagree"] + tot["season_disagree"]
    cases = tot["init_agree"] + tot["init_disagree"] + tot["run_agree"] + tot["run_disagree"] + tot["season_agree"] + tot["season_disagree"]
    cov = {"stage": stage, "configurations_drawn": len(cfgs), "accepted": tot["accepted"], "skipped": dict(skipped), "rejected_by_initialisation": dict(rej),
           "per_stage": {k: dict(v) for k, v in sorted(stage_tab.items())},
           "features_drawn": dict(feats), "features_of_agreeing_whole_runs": dict(agree_feats), "harness_errors": herr[:3],
           **{k: tot[k] for k in sorted(tot)}}
    return {"suite": name, "cases": cases, "distinct": cases, "agree": cases - disagree, "disagree": disagree + len(herr),
            "by_function": {"initialise": tot["init_agree"] + tot["init_disagree"], "season": tot["season_agree"] + tot["season_disagree"],
                            "run_config": tot["run_agree"] + tot["run_disagree"]},
            "coverage": cov, "error": ("harness errors: %d" % len(herr)) if herr else None,
            "total_s": round(time.time() - t0, 1), "mismatches": bad[:10], "samples": [{"cfg": cfgs[0]}] if cfgs else []}


def run_custom(n, pid):
    return run_l3(nsims=n, name="initialise-" + pid)


# ---------------------------------------------------------------------------------------------------------------
# malformed stream: configurations the initialisation rejects
def malform(rng, cfg):
    """one mutation of a valid configuration that makes `_initialize()` raise (returns a tag)"""
    k = rng.choice(["window_1day", "uncovered_end", "uncovered_start", "planting_0230", "too_long", "schedule_dup", "gw_other_method",
                    "iwc_depth_len", "iwc_layer_missing", "end_before_start", "co2_empty", "ksat0_calc_cn", "layer_too_thin", "no_season"])
    if k == "window_1day":
        cfg["end"] = cfg["start"]
    elif k == "end_before_start":
        cfg["end"] = (pd.Timestamp(cfg["start"]) - pd.Timedelta(days=3)).strftime("%Y/%m/%d")
    elif k == "uncovered_end":
        cfg["end"] = (sim.weather_range(cfg["weather"]["file"])[1] + pd.Timedelta(days=rng.choice([1, 40]))).strftime("%Y/%m/%d")
    elif k == "uncovered_start":
        cfg["start"] = (sim.weather_range(cfg["weather"]["file"])[0] - pd.Timedelta(days=rng.choice([1, 400]))).strftime("%Y/%m/%d")
    elif k == "planting_0230":
        cfg["crop"]["planting_date"] = rng.choice(["02/30", "02/29", "13/01", "04/31"])
    elif k == "too_long":
        cfg["start"] = "1400/01/01"
    elif k == "schedule_dup":
        d = cfg["start"]
        cfg["irr"] = {"irrigation_method": 3, "schedule": [[d, 10.0], [d, 20.0]]}
    elif k == "gw_other_method":
        cfg["gw"] = {"water_table": "Y", "method": rng.choice(["Other", "Variable", "Constant"]), "dates": [], "values": []}
        if rng.random() < 0.5:
            cfg["gw"] = {"water_table": "Y", "method": "Other", "dates": [cfg["start"], cfg["end"]], "values": [1.0, 2.0]}
    elif k == "iwc_depth_len":
        cfg["iwc"] = {"wc_type": "Pct", "method": "Depth", "depth_layer": [0.2, 0.6], "value": [20, 50, 10]}
    elif k == "iwc_layer_missing":
        cfg["iwc"] = {"wc_type": "Pct", "method": "Layer", "depth_layer": [1, 7], "value": [20, 50]}
    elif k == "co2_empty":
        cfg["co2"] = {"series": []}
    elif k == "ksat0_calc_cn":
        cfg["soil"] = {"type": "custom", "dz": [0.1] * 12, "layers": [[1.2, 0.1, 0.2, 0.4, 0.0, 100]], "kwargs": {"calc_cn": 1}}
        cfg["iwc"] = None
    elif k == "layer_too_thin":
        cfg["soil"] = {"type": "custom", "dz": [0.1] * 12, "layers": [[0.04, 0.1, 0.2, 0.4, 100.0, 100]], "kwargs": {}}
        cfg["iwc"] = None
    elif k == "no_season":
        # a window that ends before the first planting date: no season at all (IndexError, finding 11)
        st = pd.Timestamp(cfg["start"]); pm, pd_ = [int(x) for x in cfg["crop"]["planting_date"].split("/")]
        cfg["start"] = (pd.Timestamp(year=st.year, month=pm, day=pd_) + pd.Timedelta(days=20)).strftime("%Y/%m/%d")
        cfg["end"] = (pd.Timestamp(cfg["start"]) + pd.Timedelta(days=60)).strftime("%Y/%m/%d")
    return k


def run_malformed(n=140, name="initialise-malformed"):
    """mutated configurations: does the model reject exactly those the implementation rejects, and with which error kind"""
    cfgs = []; tags = []
    for i in range(n):
        rng = rng_for("cfg", name, i)
        cfg = sim.gen_config(rng, method=i % 6)
        tags.append(malform(rng, cfg)); cfgs.append(cfg)
    res = sim.pmap(worker, [{"cfg": c, "index": i, "stage": 4} for i, c in enumerate(cfgs)], timeout=600)
    tab = collections.Counter(); bad = []
    for c, t, r in zip(cfgs, tags, res):
        if r.get("hang") or r.get("harness_error"):
            tab[(t, "HARNESS " + str(r.get("harness_error", "hang"))[-160:])] += 1; continue
        if r.get("skipped"):
            tab[(t, r["skipped"])] += 1
        elif r.get("rejected"):
            tab[(t, r["rejected"] + " -> model " + str(r.get("model_error")) + (" AGREE" if r.get("rejected_agree") else " DISAGREE"))] += 1
        else:
            tab[(t, "accepted by the implementation; init %s run %s" % ("agree" if r.get("init_agree") else "DISAGREE",
                                                                          "agree" if r.get("run_agree") else ("DISAGREE" if r.get("run_disagree") else r.get("run_skipped"))))] += 1
        if r.get("first_bad"): bad.append(r["first_bad"])
    return tab, bad


def gen(rng, n):
    """l1-style stream.  The lines of one configuration must reach the driver in order (`config` sets the configuration the
    following `initialise` / `season k` / `run_config` lines refer to).  About one configuration in eight is mutated into one the
    initialisation rejects (kind="malformed")."""
    k = 0; i = 0
    while k < n:
        crng = rng_for("cfg", "initialise-gen", rng.random(), i); i += 1
        cfg = sim.gen_config(crng, method=i % 6)
        tag = None
        if i % 8 == 0:
            tag = malform(crng, cfg)
        if stage_of(cfg)[0] > STAGE:
            continue
        try:
            m, calls = build_user(cfg)
            line = enc_config(m, calls)
        except Exception:
            continue
        exp_init, err, extra = expected_init(cfg)
        yield Case("config", line, ["OK"], None); k += 1
        if exp_init is None:
            yield Case("initialise", "", ["N"], {"cfg": cfg, "malformed": tag, "impl": err}, kind="malformed"); k += 1
            continue
        yield Case("initialise", "", exp_init, {"cfg": cfg, "malformed_but_accepted": tag}); k += 1
        o = day.run_sim(cfg, None, keep=True, hook=dayc.par_hook)
        rl, exp_run = runc.sim_lines(o)
        if rl is not None and exp_run is not None and exp_run[0] != "CLOCK-PARAMETERS-CHANGED-WHILE-STEPPING":
            yield Case("run_config", "", exp_run, {"cfg": cfg}); k += 1


if __name__ == "__main__":
    import sys
    nn = int(sys.argv[1]) if len(sys.argv) > 1 else 16
    stg = int(sys.argv[2]) if len(sys.argv) > 2 else STAGE
    simp = int(sys.argv[3]) if len(sys.argv) > 3 else None
    r = run_l3(nn, stage=stg, simplify_to=simp)
    print(json.dumps({k: v for k, v in r.items() if k not in ("samples",)}, indent=1, default=str)[:12000])
