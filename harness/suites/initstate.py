"""L1 (bit-exact): the state object right after initialisation (unit `initstate`, model Init/InitState.v `init_state`).

Implementation side: the real `AquaCropModel(...)._initialize()` over configurations drawn with sim.gen_config (water table forced
for a third of the cases, bunds with bund water for a third — also in the FALLOW field management when the run starts before the
first planting date —, start before the first planting date for a third: initial season counter -1); EVERY field of
`m._init_cond` is compared (day.enc_state, the three clock fields dap / crop_mature / harvest_flag must have their defaults).
Model side: the parameters exactly as suites/dayc.py `par_hook` encodes them for season 0, the initial season counter, z_gw[0]
(if there is a water table), the "initial content is FC" flag and the initial water contents BEFORE the water-table overrides.
Those are `m._init_cond.th` when there is no water table; with a water table they are the th of the same configuration
initialised WITHOUT groundwater (the Layer / Depth interpolation does not read the water table; it has its own suite `soilinit`).

Streams (Case.info["stream"]):
  init      the real _initialize()                                                        (about 3/4 of the valid cases)
  direct    the same initialised model, then `read_model_initial_conditions` called again on its parameter structures with a
            redrawn first water-table depth (negative, NaN, on / next to compartment mid-points, below the profile), a water
            table switched on where the configuration had none, sometimes water_table = 2 (nothing is stored), sometimes soil
            hydraulic values with 4 decimals (3-decimal rounding of th_fc_Adj visible), sometimes bunds put into the
            management in force — inputs the public constructor accepts but gen_config draws rarely or never
  malformed the second call raises: z_gw without entry 0 (IndexError), or zMid says "table in the profile" while no recomputed
            mid-point lies below it (`np.where(...)[0][0]` IndexError)
COV counts the branches taken by the generated cases (printed by `report()`)."""
import collections, copy, math
import numpy as np
import pandas as pd
from common import *
from l1 import Case
import sim
from suites import day, dayc
from suites.day import eF, eZ, eB, eFL, enc_state

install_libm_proxy()
from aquacrop.initialize.read_model_initial_conditions import read_model_initial_conditions as RMIC

COV = collections.Counter()
N_FULL = 105


def fc_flag(iwc):
    return iwc.wc_type == "Prop" and len(iwc.value) > 0 and str(np.array(iwc.value, dtype=str)[-1]) == "FC"


def clock_defaults_ok(ic):
    return ic.dap == 0 and ic.crop_mature is False and ic.harvest_flag is False


def line_of(ps, cs, k, zgw0, fcr, th0):
    return " ".join([dayc.par_hook(ps, cs, 0), str(int(k)), ("N" if zgw0 is None else "S " + hx(zgw0)), tb(fcr), eFL(th0)])


def cover(stream, ps, cs, ic, fcr, th0):
    """branch statistics of one valid case"""
    P = ps.Soil.Profile; k = int(cs.season_counter); wt = int(ps.water_table)
    COV[stream] += 1
    COV["season_%d" % k] += 1
    COV["water_table_%d" % wt] += 1
    fm = ps.FallowFieldMngt if k == -1 else ps.FieldMngt
    if k in (0, -1) and fm.bunds and float(fm.z_bund) > 0.001:
        COV["bunds_in_force"] += 1
        COV["bund_water_clamped" if float(fm.bund_water) > float(fm.z_bund) else "bund_water_kept"] += 1
        if k == -1: COV["bunds_in_force_fallow"] += 1
        if ic.surface_storage > 0: COV["surface_storage_positive"] += 1
    if fcr: COV["iwc_is_FC"] += 1
    if wt == 1:
        z = float(ic.z_gw)
        fc = np.asarray(ic.th_fc_Adj, dtype=float); thfc = np.asarray(P.th_fc, dtype=float); ths = np.asarray(P.th_s, dtype=float)
        if z != z: COV["zgw_nan"] += 1
        elif z < 0: COV["zgw_negative"] += 1
        if ic.wt_in_soil:
            COV["wt_in_soil"] += 1
            if fcr: COV["wt_in_soil_and_FC(alias th / th_fc_Adj)"] += 1
            if not np.array_equal(np.asarray(ic.th, dtype=float), np.asarray(th0, dtype=float)): COV["th_saturated_below_table"] += 1
        if fcr and not np.array_equal(np.asarray(ic.th, dtype=float), np.asarray(th0, dtype=float)): COV["th_reset_to_fcadj"] += 1
        if np.any(fc != thfc): COV["fcadj_differs_from_fc"] += 1
        if np.all(fc == thfc): COV["fcadj_all_far"] += 1
        inter = (fc > np.round(thfc, 3) + 1e-9) & (fc < np.round(ths, 3) - 1e-9)
        if np.any(inter):
            COV["fcadj_parabola"] += 1
            if np.any(inter & (thfc > 0.1) & (thfc < 0.3)): COV["fcadj_parabola_xmax_exp"] += 1
            if np.any(inter & (thfc >= 0.3)): COV["fcadj_parabola_xmax_2"] += 1
            if np.any(inter & (thfc <= 0.1)): COV["fcadj_parabola_xmax_1"] += 1
        if np.any((fc == np.round(ths, 3)) & (thfc < ths)): COV["fcadj_saturated"] += 1
        if np.any(np.round(thfc, 3) != thfc) or np.any(np.round(ths, 3) != ths): COV["soil_values_off_the_3_decimal_grid"] += 1
        mids = (np.append([0], np.asarray(P.dzsum)[:-1]) + np.asarray(P.dzsum)) / 2
        if np.max(np.abs(np.asarray(P.zMid, dtype=float) - mids)) > 1e-6:
            COV["zMid_stale(deepened profile)"] += 1
            if ic.wt_in_soil and z == z:
                i1 = int(np.argmax(np.asarray(P.zMid, dtype=float) >= z)); i2 = int(np.argmax(mids >= z))
                if i1 != i2: COV["zMid_stale_and_first_saturated_compartment_differs"] += 1


def raw_th(cfg):
    """the initial water contents of the configuration without its water table"""
    c2 = dict(cfg); c2["gw"] = None
    m2 = sim.build_model(c2); m2._initialize()
    return np.array(m2._init_cond.th, dtype=float), m2


def draw_cfg(rng, i):
    force = {}
    if i % 3 == 0: force["gw"] = True
    if i % 3 == 1: force["bunds"] = True
    if (i // 3) % 3 == 0:
        force["start_mode"] = "before"
        if i % 3 == 1 or rng.random() < 0.15:      # the fallow management is the one in force on the first day
            force["fallow_field"] = {"bunds": True, "z_bund": rng.choice([0.0005, 0.05, 0.1, 0.2]), "bund_water": float(rng.choice([0, 20, 60, 150]))}
    elif (i // 3) % 3 == 1:
        force["start_mode"] = "at"
    return sim.gen_config(rng_for("cfg", "initstate", rng.random(), i), **force)


def init_case(cfg):
    """(Case | None, m, th0)"""
    try:
        m = sim.build_model(cfg); m._initialize()
    except Exception as e:
        COV["config_rejected:%s@%s" % (type(e).__name__, sim.exc_info(e)["origin"])] += 1
        return None, None, None
    ic = m._init_cond; cs = m._clock_struct; ps = m._param_struct
    if set(ic.__dict__.keys()) != set(n for n, _ in day.STATE) | set(day.CLOCK_FIELDS) or not clock_defaults_ok(ic):
        raise RuntimeError("state object: unexpected attributes / clock defaults")
    wt = int(ps.water_table); fcr = fc_flag(m.initial_water_content)
    if wt == 1:
        th0, m2 = raw_th(cfg)
        P, P2 = ps.Soil.Profile, m2._param_struct.Soil.Profile
        if not (np.array_equal(P.dz, P2.dz) and np.array_equal(P.th_s, P2.th_s) and np.array_equal(P.Layer, P2.Layer)):
            raise RuntimeError("profile differs without the water table")
        zgw0 = float(ps.z_gw[cs.time_step_counter])
    else:
        th0 = np.array(ic.th, dtype=float); zgw0 = None
    if len(dayc.enc_full(ps.Seasonal_Crop_List[0])) != N_FULL:
        raise RuntimeError("enc_full length")
    cover("init", ps, cs, ic, fcr, th0)
    case = Case("initstate", line_of(ps, cs, cs.season_counter, zgw0, fcr, th0), ["S"] + " ".join(enc_state(ic)).split(),
                {"cfg": cfg, "stream": "init"})
    return case, m, th0


def raw_direct(ps, cs, iwc, crop):
    """the Layer / Depth interpolation alone: the function itself with the water table switched off"""
    wt = ps.water_table; ps.water_table = 0
    try:
        return np.array(RMIC(ps, cs, iwc, crop)[1].th, dtype=float)
    finally:
        ps.water_table = wt


def tamper(rng, m):
    """redraw what the configuration generator draws rarely; returns a tag"""
    ps = m._param_struct; cs = m._clock_struct
    df = ps.Soil.profile; P = ps.Soil.Profile
    for a in ("th_fc", "th_s", "th_wp", "th_dry", "zMid"):      # the arrays of the SoilProfile object are read-only views
        setattr(P, a, np.array(getattr(P, a), dtype=float))
    tags = []
    r = rng.random()
    if r < 0.2:       # hydraulic values with 4 decimals, layer by layer, in the DataFrame and in the SoilProfile object alike
        for L in sorted(set(int(x) for x in P.Layer)):
            d1 = rng.choice([0.0, 0.0004, 0.0005, -0.0005, 0.00049, 0.0015]); d2 = rng.choice([0.0, 0.0004, 0.0005, -0.0005, 0.0007])
            for i in range(len(P.dz)):
                if int(P.Layer[i]) == L:
                    P.th_fc[i] = P.th_fc[i] + d1; P.th_s[i] = P.th_s[i] + d2
            df.loc[df.Layer == L, "th_fc"] = df.loc[df.Layer == L, "th_fc"] + d1
            df.loc[df.Layer == L, "th_s"] = df.loc[df.Layer == L, "th_s"] + d2
        tags.append("4dec")
    elif r < 0.3:     # a coarse layer (th_fc <= 0.1: Xmax = 1) or a degenerate one (th_fc = th_s)
        L = rng.choice(sorted(set(int(x) for x in P.Layer))); coarse = rng.random() < 0.6
        for i in range(len(P.dz)):
            if int(P.Layer[i]) == L:
                if coarse: P.th_fc[i] = 0.09; P.th_wp[i] = 0.03; P.th_dry[i] = 0.015
                else: P.th_s[i] = P.th_fc[i]
        if coarse:
            df.loc[df.Layer == L, "th_fc"] = 0.09; df.loc[df.Layer == L, "th_wp"] = 0.03; df.loc[df.Layer == L, "th_dry"] = 0.015
        else:
            df.loc[df.Layer == L, "th_s"] = df.loc[df.Layer == L, "th_fc"]
        tags.append("coarse" if coarse else "fc=s")
    # water table
    r = rng.random()
    tot = float(P.dzsum[-1]); mids = (np.append([0], np.asarray(P.dzsum)[:-1]) + np.asarray(P.dzsum)) / 2
    if r < 0.04:
        ps.water_table = 2; tags.append("wt2")
    elif r < 0.1:
        ps.water_table = 0; tags.append("wt0")
    else:
        ps.water_table = 1
        mode = rng.choice(["in", "in", "in", "zmid", "mid", "near", "below", "below", "far", "neg", "nan", "zero"])
        if mode == "in": z = rng.uniform(0.05, tot)
        elif mode == "zmid": z = float(rng.choice(list(P.zMid)))
        elif mode == "mid": z = float(rng.choice(list(mids)))
        elif mode == "near": z = float(rng.choice(list(mids) + list(P.zMid))) + rng.choice([1, -1]) * rng.choice([1e-9, 1e-4, 1e-3, 0.01])
        elif mode == "below": z = tot + rng.uniform(0.0, 2.5)
        elif mode == "far": z = rng.uniform(tot + 2, 30.0)
        elif mode == "neg": z = -rng.choice([0.001, 0.5, 3.0])
        elif mode == "nan": z = float("nan")
        else: z = 0.0
        if mode in ("in", "below") and rng.random() < 0.5: z = round(z, rng.choice([1, 2, 2, 3]))
        n = max(1, len(cs.time_span))
        ps.z_gw = np.array([z] + [1.0] * (n - 1)); tags.append("z_" + mode)
    # bunds in the management in force
    if rng.random() < 0.3:
        fm = ps.FallowFieldMngt if int(cs.season_counter) == -1 else ps.FieldMngt
        fm.bunds = True; fm.z_bund = rng.choice([0.5, 1.0, 1.0000000000000002, 50.0, 100.0]); fm.bund_water = float(rng.choice([0, 0.7, 20, 50, 60, 150]))
        tags.append("bunds")
    return "+".join(tags)


def direct_case(rng, m, cfg, malformed=None):
    ps = m._param_struct; cs = m._clock_struct; iwc = m.initial_water_content
    tag = tamper(rng, m)
    if malformed == "nozgw":
        ps.water_table = 1; ps.z_gw = np.array([])
    elif malformed == "zmid":
        # zMid (not recomputed by the code) says the table is inside the profile, the recomputed mid-points say it is not
        ps.water_table = 1; tot = float(ps.Soil.Profile.dzsum[-1])
        ps.Soil.Profile.zMid = np.asarray(ps.Soil.Profile.zMid, dtype=float) + 10.0
        ps.Soil.profile["zMid"] = ps.Soil.profile["zMid"] + 10.0
        ps.z_gw = np.array([tot + 1.0] * max(1, len(cs.time_span)))
    fcr = fc_flag(iwc)
    th0 = raw_direct(ps, cs, iwc, m.crop)
    wt = int(ps.water_table)
    try:
        zgw0 = float(ps.z_gw[cs.time_step_counter]) if wt == 1 else None
    except IndexError:
        zgw0 = None
    line = line_of(ps, cs, cs.season_counter, zgw0, fcr, th0)
    info = {"cfg": cfg, "stream": "malformed:" + malformed if malformed else "direct", "tamper": tag}
    try:
        ic = RMIC(ps, cs, iwc, m.crop)[1]
    except IndexError as e:
        COV["direct_raises_IndexError" + (":" + malformed if malformed else "")] += 1
        return Case("initstate", line, ["N"], info, kind="malformed")
    if malformed:
        raise RuntimeError("malformed case did not raise")
    cover("direct", ps, cs, ic, fcr, th0)
    return Case("initstate", line, ["S"] + " ".join(enc_state(ic)).split(), info)


def gen(rng, n):
    nm = max(4, n // 150) if n >= 40 else 0
    k = 0; i = 0; km = 0
    while k < n:
        cfg = draw_cfg(rng, i); i += 1
        case, m, th0 = init_case(cfg)
        if case is None:
            continue
        yield case; k += 1
        if k >= n: return
        if km < nm and i % 7 == 3:
            yield direct_case(rng, m, cfg, malformed=("nozgw" if km % 2 == 0 else "zmid")); k += 1; km += 1
        elif i % 3 == 2 or rng.random() < 0.12:
            yield direct_case(rng, m, cfg); k += 1


def report():
    return dict(sorted(COV.items()))
