"""L1/Linit suite for the inputs unit (Init/Inputs.v): how user inputs are bound to the window.

Every case goes through the REAL initialisation `AquaCropModel._initialize()`:
  * "full"  : the unchanged method (about 1 case in 8, and every CO2 case);
  * "light" : the same method with the four steps that do not belong to this unit
              (read_model_parameters, compute_variables, read_model_initial_conditions,
              create_soil_profile, Output) rebound to no-ops in aquacrop.core's namespace, so that
              read_clock_parameters, read_weather_inputs, read_irrigation_management,
              read_field_management, read_groundwater_table and the weather-matrix construction
              run for real at ~10x the speed.
Compared bit-for-bit: model._weather, the index of the written-back weather_df, the result of a
second (and third, from the matrix) initialisation, param_struct.IrrMngt.Schedule, param_struct.z_gw,
CO2.current_concentration / co2_data_processed and the per-season concentration set by the real
reset_initial_conditions.  Harness-side monitors add a token (USERCHANGED / SECONDDIFF / ...) to the
expected output when the user's objects are modified or a second initialisation differs, so that
such an event shows up as a disagreement."""
import itertools, types, collections
import numpy as np, pandas as pd
from common import *
from l1 import Case

install_libm_proxy()
import aquacrop.core as core
from aquacrop.core import AquaCropModel
from aquacrop.entities.soil import Soil
from aquacrop.entities.crop import Crop
from aquacrop.entities.inititalWaterContent import InitialWaterContent
from aquacrop.entities.irrigationManagement import IrrigationManagement
from aquacrop.entities.fieldManagement import FieldMngt
from aquacrop.entities.groundWater import GroundWater
from aquacrop.entities.co2 import CO2
from aquacrop.entities.paramStruct import ParamStruct
from aquacrop.timestep.reset_initial_conditions import reset_initial_conditions

EPOCH = pd.Timestamp("1970-01-01")
NAMES = ["Date", "MinTemp", "MaxTemp", "Precipitation", "ReferenceET"]   # column ids 0..4
PERMS = list(itertools.permutations(range(5)))
COVER = collections.Counter()      # branch coverage, filled while generating

_REAL = {k: getattr(core, k) for k in
         ("read_model_parameters", "compute_variables", "read_model_initial_conditions", "create_soil_profile", "Output")}
_LIGHT = {
    "read_model_parameters": lambda cs, soil, crop, w: (cs, ParamStruct()),
    "compute_variables": lambda ps, w, cs: ps,
    "read_model_initial_conditions": lambda ps, cs, iwc, crop: (ps, types.SimpleNamespace(th=None)),
    "create_soil_profile": lambda ps: ps,
    "Output": lambda ts, th: None,
}


def set_mode(light):
    for k in _REAL:
        setattr(core, k, _LIGHT[k] if light else _REAL[k])


def day(ts):
    return int((pd.Timestamp(ts) - EPOCH).days)


def ts_of(d):
    return EPOCH + pd.Timedelta(days=int(d))


def ds(d):
    return ts_of(d).strftime("%Y/%m/%d")


_soil = None
_iwc = None
_crops = {}
_DEFAULT_CO2 = None


def base_objs(s):
    """soil, crop (planted on the start day so that the window contains a planting date), iwc"""
    global _soil, _iwc
    if _soil is None:
        _soil = Soil("SandyLoam")
        _iwc = InitialWaterContent(value=["FC"])
    md = ts_of(s).strftime("%m/%d")
    if md not in _crops:
        # harvest the day after planting: the season lies in one calendar year whatever the window
        _crops[md] = Crop("Maize", planting_date=md, harvest_date=ts_of(s + 1).strftime("%m/%d"))
    return _soil, _crops[md], _iwc


def pick_start(rng):
    """a start day whose month/day can serve as planting date of the full initialisation
    (not 12/31, 02/28, 02/29: read_model_parameters would see a season crossing the year / a mock-year problem)"""
    while True:
        s = day("1975-01-01") + rng.randint(0, 11000)
        if ts_of(s).strftime("%m/%d") not in ("12/31", "02/28", "02/29", "12/30"):
            return s


def err_code(e):
    m = str(e)
    if isinstance(e, ValueError):
        if "Check if all the following columns" in m: return 1
        if "truth value" in m: return 2
        if "first date of the climate" in m: return 4
        if "model end date cannot" in m: return 5
        if "duplicate labels" in m: return 7
        if "array of sample points is empty" in m: return 9
        return 99
    if isinstance(e, UnboundLocalError): return 8
    if isinstance(e, IndexError): return 3
    if isinstance(e, TypeError): return 6
    if isinstance(e, KeyError): return 10
    return 98


def good_weather(s, e, lead=3, trail=3):
    dates = [ts_of(d) for d in range(s - lead, e + trail + 1)]
    n = len(dates)
    return pd.DataFrame({"MinTemp": np.full(n, 10.0), "MaxTemp": np.full(n, 22.0), "Precipitation": np.zeros(n),
                         "ReferenceET": np.full(n, 3.5), "Date": pd.DatetimeIndex(dates)})


def make_model(s, e, wdf, **kw):
    soil, crop, iwc = base_objs(s)
    return AquaCropModel(ds(s), ds(e), wdf, soil, crop, iwc, **kw)


# ----------------------------------------------------------------------------------------------
# (a) weather
def rnd_val(rng):
    r = rng.random()
    if r < 0.5:
        return round(rng.uniform(-10, 45), 1)
    if r < 0.9:
        return rng.uniform(-10, 45)
    return float(rng.randint(-5, 40))


def matrix_tokens(w):
    """model._weather -> tokens 'n (tmin tmax prec et date)*'"""
    toks = [str(len(w))]
    for r in w:
        if len(r) != 5:
            return ["BADSHAPE"]
        toks += [hx(r[0]), hx(r[1]), hx(r[2]), hx(r[3]), str(day(r[4]))]
    return toks


def gen_weather(rng, n, counter=[0]):
    for _ in range(n):
        counter[0] += 1
        k = counter[0]
        s = pick_start(rng)
        L = rng.choice([2, 3, 5, 8, 13, 21, 34]) if rng.random() < 0.9 else rng.randint(35, 150)
        e = s + L - 1
        r = rng.random()
        cat = ("sorted" if r < 0.45 else "gap" if r < 0.55 else "dup" if r < 0.65 else "unsorted" if r < 0.77
               else "nocover" if r < 0.90 else "empty" if r < 0.92 else "malformed")
        lead = rng.choice([0, 0, 1, 2, 5, 30]); trail = rng.choice([0, 0, 1, 2, 5, 30])
        if cat == "nocover":
            w = rng.randint(0, 2)
            if w in (0, 2): lead = -rng.randint(1, max(1, L - 1))
            if w in (1, 2): trail = -rng.randint(1, max(1, L - 1))
        dates = list(range(s - lead, e + trail + 1))
        if cat == "gap" and len(dates) > 2:
            for _i in range(rng.randint(1, 3)):
                if len(dates) > 1:
                    dates.pop(rng.randrange(len(dates)))
        if cat == "dup":
            for _i in range(rng.randint(1, 3)):
                j = rng.randrange(len(dates)); dates.insert(rng.randint(j, j + 1), dates[j])
        if cat == "unsorted":
            if rng.random() < 0.5:
                rng.shuffle(dates)
            else:   # a local swap, or a rotation
                i, j = rng.randrange(len(dates)), rng.randrange(len(dates))
                dates[i], dates[j] = dates[j], dates[i]
        if cat == "empty":
            dates = []
        nr = len(dates)
        # columns: the five in the k-th permutation, extra columns inserted anywhere
        perm = PERMS[k % 120]
        cols = [(cid, NAMES[cid]) for cid in perm]
        used = set()
        for x in range(rng.choice([0, 0, 1, 2, 3])):
            if rng.random() < 0.35:
                # an unrelated column whose label differs from a required one only by case / blanks: binding is by the EXACT name
                nm = rng.choice(["precipitation", "maxtemp", "MINTEMP", " ReferenceET", "referenceet", "date", "Date ", "Precipitation ", "minTemp", "MaxTemp "])
                if nm in used:
                    nm = nm + str(x)
                COVER["weather:lookalike_extra_column"] += 1
            else:
                nm = rng.choice(["Wind", "RH", "Tmean", "date", "mintemp"]) + str(x)
            used.add(nm)
            cols.insert(rng.randint(0, len(cols)), (5 + x, nm))
        mal = None
        if cat == "malformed":
            mal = rng.choice(["missing", "dupdate", "numdate"])
            if mal == "missing":
                del cols[[c[0] for c in cols].index(rng.randint(0, 4))]
            elif mal == "dupdate":
                cols.insert(rng.randint(0, len(cols)), (0, "Date"))
        data, cells = [], []
        for cid, name in cols:
            if cid == 0 and mal != "numdate":
                col = pd.DatetimeIndex([ts_of(d) for d in dates]) if nr else pd.DatetimeIndex([])
                data.append(pd.Series(col, name=name))
                cells.append(["D %d" % d for d in dates])
            elif cid >= 5 and rng.random() < 0.3:   # an extra column holding dates
                dd = [rng.randint(0, 20000) for _ in dates]
                data.append(pd.Series(pd.DatetimeIndex([ts_of(d) for d in dd]), name=name))
                cells.append(["D %d" % d for d in dd])
            else:
                vals = [rnd_val(rng) for _ in dates]
                data.append(pd.Series(np.array(vals, dtype=float), name=name))
                cells.append(["X " + hx(v) for v in vals])
        df = pd.concat(data, axis=1) if data else pd.DataFrame()
        df.columns = [c[1] for c in cols]
        # index: default / shuffled ints / strings / duplicate labels / the dates
        ik = rng.choice(["range", "shuffled", "str", "dup", "dates"])
        if ik == "range": labels = list(range(nr))
        elif ik == "shuffled": labels = rng.sample(range(1000), nr) if nr <= 1000 else list(range(nr))
        elif ik == "str": labels = ["r%d" % rng.randint(0, 50) for _ in range(nr)]
        elif ik == "dup": labels = [rng.randint(0, 3) for _ in range(nr)]
        else: labels = [ts_of(d) for d in dates]
        if nr:
            df.index = pd.Index(labels)
        ids = {}
        lab = [ids.setdefault(l, len(ids)) for l in labels]
        line = "%d %d %d %s %d %s" % (s, e, len(cols), " ".join(str(c[0]) for c in cols), nr,
                                      " ".join("%d %s" % (lab[i], " ".join(c[i] for c in cells)) for i in range(nr)))
        full = (k % 8 == 0)
        set_mode(not full)
        user = df.copy(deep=True)
        exp = []
        try:
            m = make_model(s, e, df)
            m._initialize()
            w1 = m._weather
            exp = ["S", str(len(m.weather_df))] + [str(ids[l]) for l in m.weather_df.index] + ["S"] + matrix_tokens(w1)
            if any(len(r) == 5 and not all(type(x) is float for x in r[:4]) for r in w1):
                exp.append("NOTFLOAT")
            # C11: a second initialisation of the same model object
            try:
                m._initialize()
                exp += ["S"] + matrix_tokens(m._weather)
            except Exception as ex:
                exp += ["N", str(err_code(ex))]
            # and a new model from the matrix seen as a table (always light)
            set_mode(True)
            try:
                df3 = pd.DataFrame({nm: [r[j] for r in w1] for j, nm in enumerate(NAMES[1:] + ["Date"])})
                if len(w1) == 0:
                    df3["Date"] = pd.DatetimeIndex([])
                m3 = make_model(s, e, df3); m3._initialize()
                exp += ["S"] + matrix_tokens(m3._weather)
            except Exception as ex:
                exp += ["N", str(err_code(ex))]
        except Exception as ex:
            exp = ["N", str(err_code(ex))]
        if not (df.equals(user) and list(df.columns) == list(user.columns) and df.index.equals(user.index)):
            exp.append("USERCHANGED")
        tag = cat if cat != "malformed" else "mal_" + mal
        COVER["weather:" + tag] += 1
        COVER["weather:" + ("err%s" % exp[1] if exp[0] == "N" else "ok")] += 1
        COVER["weather:index_" + ik] += 1
        COVER["weather:" + ("full" if full else "light")] += 1
        if exp[0] == "S" and len(m._weather) != L: COVER["weather:rows!=steps"] += 1
        yield Case("weather", line, exp, {"cat": tag, "s": ds(s), "e": ds(e), "cols": [c[1] for c in cols], "index": ik,
                                          "dates": [ds(d) for d in dates[:60]], "full": full},
                   "malformed" if cat == "malformed" else "valid")
    set_mode(False)


# ----------------------------------------------------------------------------------------------
# (b) irrigation schedule
def gen_schedule(rng, n, counter=[0]):
    for _ in range(n):
        counter[0] += 1
        k = counter[0]
        s = pick_start(rng)
        L = rng.choice([2, 3, 5, 8, 13, 21, 34, 60])
        e = s + L - 1
        method = 3 if rng.random() < 0.9 else rng.choice([0, 1, 2, 4, 5])
        nd = rng.choice([0, 1, 2, 3, 4, 6, 9])
        dates = [rng.randint(s - 4, e + 4) if rng.random() < 0.8 else rng.choice([s, e, s - 1, e + 1]) for _ in range(nd)]
        r = rng.random()
        if nd and r < 0.25:            # force a duplicate
            dates.append(rng.choice(dates))
        elif r < 0.6:
            dates = sorted(set(dates))
        elif r < 0.8:
            dates = list(dict.fromkeys(dates))     # unique, unsorted
        depths = [float(rng.choice([5, 10, 25, 40])) if rng.random() < 0.5 else rng.uniform(0, 60) for _ in dates]
        form = rng.choice(["typed", "object", "int"])
        if form == "typed":
            sch = pd.DataFrame({"Date": pd.DatetimeIndex([ts_of(d) for d in dates]), "Depth": np.array(depths, dtype=float)})
        elif form == "int":
            depths = [float(int(x)) for x in depths]
            sch = pd.DataFrame({"Date": pd.DatetimeIndex([ts_of(d) for d in dates]), "Depth": np.array(depths, dtype=int)})
        else:   # the construction shown in the class docstring: two object columns
            if dates:
                sch = pd.DataFrame([pd.DatetimeIndex([ts_of(d) for d in dates]), depths]).T
                sch.columns = ["Date", "Depth"]
            else:
                sch = pd.DataFrame(columns=["Date", "Depth"])
        smt = [float(rng.randint(0, 100)) for _ in range(4)]
        if method == 3:
            irr = IrrigationManagement(3, Schedule=sch, MaxIrr=rng.choice([25.0, 100.0]))
        elif method == 1:
            irr = IrrigationManagement(1, SMT=[int(x) for x in smt])
        else:
            irr = IrrigationManagement(method)
        full = (k % 8 == 0)
        set_mode(not full)
        pre_sched = None
        if method == 3 and rng.random() < 0.35:
            # PREHISTORY: the same IrrigationManagement object was used before, over the same window, with ANOTHER schedule;
            # the user then assigns the schedule compared here.  The binding must be a function of the object's current
            # content, not of its past (a per-object cache keyed on the window would survive this).
            try:
                od = sorted(set(rng.randint(s - 2, e + 2) for _ in range(rng.randint(1, 4))))
                ov = [float(rng.choice([7, 12, 33])) for _ in od]
                pre_sched = [[ds(d) for d in od], ov]
                irr.Schedule = pd.DataFrame({"Date": pd.DatetimeIndex([ts_of(d) for d in od]), "Depth": np.array(ov)})
                m0 = make_model(s, e, good_weather(s, e), irrigation_management=irr); m0._initialize()
            except Exception:
                pass
            irr.Schedule = sch
            COVER["schedule:prehistory_same_object"] += 1
        user_s = irr.Schedule.copy(deep=True) if isinstance(irr.Schedule, pd.DataFrame) else list(irr.Schedule)
        user_smt = list(irr.SMT)
        extra = []
        try:
            m = make_model(s, e, good_weather(s, e), irrigation_management=irr)
            m._initialize()
            sc = m._param_struct.IrrMngt.Schedule
            exp = ["S", tl(sc)]
            if method == 1 and [float(x) for x in m._param_struct.IrrMngt.SMT] != smt: extra.append("SMTDIFF")
            if not isinstance(m._param_struct.IrrMngt.SMT, np.ndarray): extra.append("SMTTYPE")
            try:
                m._initialize()
                sc2 = m._param_struct.IrrMngt.Schedule
                if tl(sc2) != tl(sc): extra.append("SECONDDIFF")
                m2 = make_model(s, e, good_weather(s, e), irrigation_management=irr); m2._initialize()
                if tl(m2._param_struct.IrrMngt.Schedule) != tl(sc): extra.append("REBUILDDIFF")
            except Exception as ex:
                extra.append("SECONDRAISED:" + type(ex).__name__)
        except Exception as ex:
            exp = ["N", str(err_code(ex))]
        if isinstance(user_s, pd.DataFrame):
            if not (isinstance(irr.Schedule, pd.DataFrame) and irr.Schedule.equals(user_s)
                    and irr.Schedule.index.equals(user_s.index)): extra.append("USERCHANGED")
        elif irr.Schedule != user_s: extra.append("USERCHANGED")
        if list(irr.SMT) != user_smt: extra.append("USERSMTCHANGED")
        inside = sum(1 for d in set(dates) if s <= d <= e)
        COVER["schedule:" + ("method3" if method == 3 else "other")] += 1
        COVER["schedule:" + ("err%s" % exp[1] if exp[0] == "N" else "ok")] += 1
        if exp[0] == "S" and method == 3:
            COVER["schedule:inside=%s" % min(inside, 3)] += 1
            if any(d < s or d > e for d in dates): COVER["schedule:has_outside"] += 1
            if dates != sorted(dates): COVER["schedule:unsorted"] += 1
        COVER["schedule:" + ("full" if full else "light")] += 1
        line = "%d %d %d %d %s" % (method, s, e, len(dates), " ".join("%d %s" % (d, hx(x)) for d, x in zip(dates, depths)))
        yield Case("schedule", line.strip(), " ".join(exp).split() + extra,
                   {"method": method, "s": ds(s), "e": ds(e), "dates": [ds(d) for d in dates], "depths": depths, "form": form,
                    "full": full, "prehistory": pre_sched}, "valid")
    set_mode(False)


# ----------------------------------------------------------------------------------------------
# (c) groundwater series
def gen_gw(rng, n, counter=[0]):
    for _ in range(n):
        counter[0] += 1
        k = counter[0]
        s = pick_start(rng)
        L = rng.choice([2, 3, 5, 8, 13, 21, 34, 60])
        e = s + L - 1
        r = rng.random()
        present = r >= 0.05
        method = rng.choice(["Constant", "Variable"]) if rng.random() < 0.97 else "Other"
        nobs = rng.choice([0, 1, 1, 2, 2, 3, 3, 4, 5, 6]) if rng.random() < 0.97 else 0
        dates = []
        for _i in range(nobs):
            q = rng.random()
            far = rng.choice([6, 6, 40, 400])
            dates.append(s if q < 0.15 else e if q < 0.25 else rng.randint(s - far, s - 1) if q < 0.4
                         else rng.randint(e + 1, e + far) if q < 0.55 else rng.randint(s, e))
        q = rng.random()
        if q < 0.55:
            dates = sorted(set(dates))
        elif q < 0.8:
            dates = sorted(dates)          # sorted, duplicates allowed
        vals = [rng.choice([0.5, 1.0, 1.5, 2.0, 3.0, 10.0]) if rng.random() < 0.4 else rng.uniform(0.3, 30) for _ in dates]
        if rng.random() < 0.1:
            vals = [float(int(v) + 1) for v in vals]
        form = rng.choice(["str", "ts"])
        udates = [ds(d) for d in dates] if form == "str" else [ts_of(d) for d in dates]
        uvals = list(vals)
        gw = GroundWater("Y" if present else "N", method, udates, uvals)
        keep_d, keep_v = list(udates), list(uvals)
        full = (k % 8 == 0)
        set_mode(not full)
        pre_gw = None
        if present and rng.random() < 0.3:
            # PREHISTORY: the same GroundWater object was used before over the same window with OTHER observations
            try:
                od = sorted(set(rng.randint(s - 3, e + 3) for _ in range(rng.randint(1, 3))))
                gw.dates = [ds(d) for d in od]; gw.values = [rng.uniform(0.4, 5) for _ in od]
                pre_gw = [list(gw.dates), list(gw.values)]
                m0 = make_model(s, e, good_weather(s, e), groundwater=gw); m0._initialize()
            except Exception:
                pass
            gw.dates = udates; gw.values = uvals
            COVER["gw:prehistory_same_object"] += 1
        extra = []
        m = make_model(s, e, good_weather(s, e), groundwater=gw)
        raised = None
        try:
            m._initialize()
        except Exception as ex:
            raised = ex
        z = getattr(getattr(m, "_param_struct", None), "z_gw", None)
        if isinstance(raised, UnboundLocalError) and "'z_gw'" in str(raised):
            z = None
        if z is not None:
            z = np.asarray(z, dtype=float)
            exp = ["S", str(len(z))] + [hx(x) for x in z]
            win = z[:L]
            exp += ["N"] if np.isnan(win).any() else ["S", str(L)] + [hx(x) for x in win]
            # after commit 400240e: one depth per simulation day, never NaN, and the initialisation does not raise
            if raised is not None: extra.append("INITRAISED:" + type(raised).__name__)
            if len(z) != L: extra.append("LENGTH")
            if np.isnan(z).any(): extra.append("NAN")
            if raised is None:
                try:
                    m._initialize()
                    if [hx(x) for x in np.asarray(m._param_struct.z_gw, dtype=float)] != [hx(x) for x in z]:
                        extra.append("SECONDDIFF")
                except Exception as ex:
                    extra.append("SECONDRAISED:" + type(ex).__name__)
        else:
            exp = ["N", str(err_code(raised)), "N"]
        if gw.dates != keep_d or gw.values != keep_v or gw.dates is not udates or gw.values is not uvals:
            extra.append("USERCHANGED")
        mcode = {"Constant": 0, "Variable": 1, "Other": 2}[method]
        tag = "absent" if not present else "nobs%d" % min(len(dates), 2) if len(dates) < 2 or method == "Other" else method
        COVER["gw:" + tag] += 1
        COVER["gw:" + ("err%s" % exp[1] if exp[0] == "N" else "ok")] += 1
        if exp[0] == "S" and present and len(dates) >= 2 and method == "Variable":
            COVER["gw:var_obs_before_start"] += any(d < s for d in dates)
            COVER["gw:var_obs_after_end"] += any(d > e for d in dates)
            COVER["gw:var_all_obs_outside"] += all(d < s or d > e for d in dates)
            COVER["gw:var_no_obs_on_start_day"] += (s not in dates)
            COVER["gw:var_duplicate_dates"] += (len(set(dates)) < len(dates))
            COVER["gw:var_unsorted"] += (dates != sorted(dates))
        if exp[0] == "S" and present and len(dates) >= 2 and dates != sorted(dates): COVER["gw:unsorted"] += 1
        COVER["gw:" + ("full" if full else "light")] += 1
        line = "%s %d %d %d %d %s" % (tb(present), mcode, s, e, len(dates), " ".join("%d %s" % (d, hx(v)) for d, v in zip(dates, vals)))
        yield Case("gw", line.strip(), exp + extra,
                   {"present": present, "method": method, "s": ds(s), "e": ds(e), "dates": [ds(d) for d in dates], "values": vals,
                    "full": full, "prehistory": pre_gw}, "valid")
    set_mode(False)


# ----------------------------------------------------------------------------------------------
# np.interp directly (the kernel shared by the groundwater interpolation and the CO2 table)
def gen_interp(rng, n):
    for _ in range(n):
        m = rng.randint(1, 8)
        xs = sorted(rng.sample(range(-20, 60), m))
        ys = [rng.uniform(-5, 400) if rng.random() < 0.7 else float(rng.randint(0, 5)) for _ in xs]
        q = [rng.randint(-25, 65) for _ in range(rng.randint(1, 12))]
        res = np.interp(np.array(q), np.array(xs), np.array(ys))
        COVER["interp:" + ("few_q(lazy slopes)" if m > len(q) else "many_q(precomputed slopes)")] += 1
        exp = []
        for v in res:
            exp += ["S", hx(v)]
        yield Case("interp", "%d %s %d %s" % (m, " ".join("%d %s" % (x, hx(y)) for x, y in zip(xs, ys)), len(q),
                                              " ".join(map(str, q))), exp, {"xp": xs, "fp": ys, "x": q}, "valid")


# ----------------------------------------------------------------------------------------------
# (d) CO2 (full initialisation + the real reset_initial_conditions) and field management
def default_co2_table():
    global _DEFAULT_CO2
    if _DEFAULT_CO2 is None:
        _DEFAULT_CO2 = CO2().co2_data
    return _DEFAULT_CO2


def gen_co2(rng, n):
    set_mode(False)
    for _ in range(n):
        y0 = rng.randint(1960, 2030)
        ny = rng.choice([1, 1, 2, 3])
        s = day("%d-%02d-%02d" % (y0, rng.randint(1, 12), rng.randint(1, 27)))   # not the 28th: the harvest day (next day) must not be 29 Feb
        e = s + rng.randint(30, 120) + 365 * (ny - 1)
        sy, ey = ts_of(s).year, ts_of(e).year
        if rng.random() < 0.5:
            data = default_co2_table()
            COVER["co2:default_table"] += 1
        else:
            yrs = sorted(rng.sample(range(1950, 2060), rng.randint(1, 8)))
            data = pd.DataFrame({"year": yrs, "ppm": [rng.uniform(280, 900) for _ in yrs]})
            COVER["co2:custom_table"] += 1
        const = rng.random() < 0.5
        # the flag as a user may hand it over: a Python bool, or a truthy / falsy value of another type (numpy.bool_ from a
        # settings table, 1 / 0); the code tests `constant_conc is True` at BOTH sites (initialisation and season reset), so
        # anything but the singleton True means "not constant" - the model gets that meaning
        flag_obj = const
        if rng.random() < 0.25:
            flag_obj = rng.choice([np.bool_(True), np.bool_(False), 1, 0])
            const = False
            COVER["co2:flag_not_a_python_bool"] += 1
        cur = rng.choice([0.0, 0.0, 369.41, 420.0, rng.uniform(300, 2200), -5.0])
        ref = rng.choice([369.41, 369.41, 400.0])
        co2 = CO2(ref_concentration=ref, current_concentration=cur, constant_conc=flag_obj, co2_data=data)
        keep = data.copy(deep=True)
        exp, extra = [], []
        ys = list(range(sy, ey + 1))
        try:
            m = make_model(s, e, good_weather(s, e), co2_concentration=co2)
            m._initialize()
            c = m._param_struct.CO2
            proc = c.co2_data_processed
            exp = ["S", hx(c.current_concentration), str(len(proc))]
            for yy, v in proc.items():
                exp += [str(int(yy)), hx(v)]
            if type(c.current_concentration) not in (float, np.float64): extra.append("CURTYPE")
            # per season: the real reset_initial_conditions with step_start_time in year yy
            cur1 = c.current_concentration
            for yy in ys:
                cs = m._clock_struct
                cs.season_counter = 0
                cs.step_start_time = pd.Timestamp("%d-07-01" % yy)
                reset_initial_conditions(cs, m._init_cond, m._param_struct, m._weather, m.crop)
                exp += ["S", hx(m._param_struct.CO2.current_concentration)]
                c.current_concentration = cur1     # each season is asked from the state after initialisation
            # second initialisation from the (written-back) user object
            m2 = make_model(s, e, good_weather(s, e), co2_concentration=co2); m2._initialize()
            exp += ["S", hx(co2.current_concentration), str(len(co2.co2_data_processed))]
            for yy, v in co2.co2_data_processed.items():
                exp += [str(int(yy)), hx(v)]
        except Exception as ex:
            exp = ["N", str(err_code(ex))]
        if not data.equals(keep): extra.append("USERCHANGED")
        COVER["co2:" + ("constant" if const else "by_year")] += 1
        if const: COVER["co2:constant_" + ("given" if cur > 0 else "from_table")] += 1
        COVER["co2:years=%d" % len(ys)] += 1
        line = "%d %d %s %s %s %d %s %d %s" % (sy, ey, hx(ref), hx(cur), tb(const), len(data),
                                             " ".join("%d %s" % (int(a), hx(b)) for a, b in zip(data.year, data.ppm)),
                                             len(ys), " ".join(map(str, ys)))
        yield Case("co2", line, exp + extra, {"s": ds(s), "e": ds(e), "ref": ref, "current": cur, "constant": const,
                                              "custom": data is not default_co2_table()}, "valid")


def gen_fieldm(rng, n):
    set_mode(True)
    for _ in range(n):
        def one():
            return dict(mulches=rng.random() < 0.5, bunds=rng.random() < 0.5, curve_number_adj=rng.random() < 0.5,
                        sr_inhb=rng.random() < 0.5, mulch_pct=rng.uniform(0, 100), f_mulch=rng.uniform(0, 1),
                        z_bund=rng.choice([0.0, 0.1, 0.25]), bund_water=rng.uniform(0, 50),
                        curve_number_adj_pct=rng.uniform(-30, 30))
        a, b = FieldMngt(**one()), FieldMngt(**one())
        s = day("1990-03-01"); e = s + 10
        m = make_model(s, e, good_weather(s, e), field_management=a, fallow_field_management=b)
        m._initialize()

        def toks(o):
            return [tb(o.mulches), tb(o.bunds), tb(o.curve_number_adj), tb(o.sr_inhb), hx(o.mulch_pct), hx(o.f_mulch),
                    hx(o.z_bund), hx(o.bund_water), hx(o.curve_number_adj_pct)]
        COVER["fieldm"] += 1
        yield Case("fieldm", " ".join(toks(a) + toks(b)), toks(m._param_struct.FieldMngt) + toks(m._param_struct.FallowFieldMngt),
                   None, "valid")
    set_mode(False)


def gen(rng, n):
    """shares: weather 36 %, schedule 26 %, groundwater 26 %, np.interp 5 %, CO2 5 %, field management 2 %"""
    parts = [(gen_weather, 0.36), (gen_schedule, 0.26), (gen_gw, 0.26), (gen_interp, 0.05), (gen_co2, 0.05), (gen_fieldm, 0.02)]
    try:
        for g, share in parts:
            for c in g(rng, max(1, int(n * share))):
                yield c
    finally:
        set_mode(False)
