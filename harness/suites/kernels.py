"""L1 suite for layer A (Kernels.v): response functions called directly in /repo."""
import types
import numpy as np
from common import *
from l1 import Case

install_libm_proxy()
from aquacrop.solution.growing_degree_day import growing_degree_day
from aquacrop.solution.water_stress import water_stress
from aquacrop.solution.temperature_stress import temperature_stress
from aquacrop.solution.aeration_stress import aeration_stress
from aquacrop.solution.cc_development import cc_development
from aquacrop.solution.cc_required_time import cc_required_time
from aquacrop.entities.crop import Crop
from aquacrop.entities.crops.crop_params import crop_params

CROPS = sorted(crop_params.keys())
_crop_cache = {}


def crop_obj(name):
    if name not in _crop_cache:
        _crop_cache[name] = Crop(name, planting_date="05/01")
    return _crop_cache[name]


def pick(rng, *choices):
    return rng.choice(choices)


def rnd_grid(rng, lo, hi, step=None):
    """mostly 'round' values (hit thresholds exactly), sometimes arbitrary doubles"""
    if step and rng.random() < 0.6:
        k = rng.randint(0, int(round((hi - lo) / step)))
        return lo + k * step
    return rng.uniform(lo, hi)


def call(f, *a):
    try:
        return f(*a), None
    except (UnboundLocalError, IndexError, ZeroDivisionError, AssertionError) as e:
        return None, type(e).__name__


def gen_gdd(rng, n):
    for i in range(n):
        c = crop_obj(rng.choice(CROPS))
        mal = rng.random() < 0.03
        method = rng.choice([0, 4, 7]) if mal else rng.choice([1, 2, 3])
        if rng.random() < 0.7:
            tupp, tbase = float(c.Tupp), float(c.Tbase)
        else:
            tbase = rnd_grid(rng, -5, 15, 0.5)
            tupp = tbase + rnd_grid(rng, 0, 35, 0.5)
        tmax = rnd_grid(rng, -30, 60, 0.5)
        tmin = tmax - rnd_grid(rng, 0, 25, 0.5) if rng.random() < 0.9 else rnd_grid(rng, -30, 60, 0.5)
        r, err = call(growing_degree_day, method, tupp, tbase, tmax, tmin)
        exp = ["N"] if err else ["S", hx(r)]
        yield Case("growing_degree_day", "%d %s %s %s %s" % (method, hx(tupp), hx(tbase), hx(tmax), hx(tmin)), exp,
                   {"method": method, "Tupp": tupp, "Tbase": tbase, "tmax": tmax, "tmin": tmin},
                   "malformed" if mal else "valid")


def gen_ws(rng, n):
    for i in range(n):
        c = crop_obj(rng.choice(CROPS))
        if rng.random() < 0.7:
            pu = [float(x) for x in c.p_up]; pl = [float(x) for x in c.p_lo]
            fs = [float(x) for x in c.fshape_w[:3]]
            cbeta = float(c.beta); etadj = int(c.ETadj)
        else:
            pu = [round(rng.uniform(0, 0.9), 2) for _ in range(4)]
            pl = [round(min(1.0, p + rng.uniform(0.01, 0.6)), 2) for p in pu]
            fs = [rng.choice([-6, -3, -1.5, 0.5, 1, 2.5, 3, 6, rng.uniform(-6, 6) or 1.0]) for _ in range(3)]
            cbeta = rng.choice([0, 12, 25, 50]); etadj = rng.choice([0, 1])
        taw = rnd_grid(rng, 1, 400, 1.0)
        Dr = rnd_grid(rng, -0.2, 1.2, 0.01) * taw
        if rng.random() < 0.15:   # sit exactly on a threshold
            Dr = rng.choice(pu + pl) * taw
        et0 = rnd_grid(rng, 0.1, 20, 0.1)
        beta = rng.random() < 0.5
        tes = rng.choice([0, 0, 1, 5])
        r, err = call(water_stress, np.array(pu), np.array(pl), etadj, cbeta, np.array(fs + [1.0]), tes, Dr, taw, et0, beta)
        beta_on = bool(beta and tes > 0)
        line = " ".join([hx(x) for x in pu + pl] + [str(etadj), hx(cbeta)] + [hx(x) for x in fs] + [tb(beta_on), hx(Dr), hx(taw), hx(et0)])
        yield Case("water_stress", line, [hx(x) for x in r],
                   {"p_up": pu, "p_lo": pl, "fshape": fs, "etadj": etadj, "beta": cbeta, "beta_on": beta_on, "Dr": Dr, "taw": taw, "et0": et0})


def gen_kst(rng, n):
    for i in range(n):
        c = crop_obj(rng.choice(CROPS))
        mal = rng.random() < 0.03
        ns = types.SimpleNamespace()
        if rng.random() < 0.7:
            for k in ("PolHeatStress", "PolColdStress", "Tmax_lo", "Tmax_up", "Tmin_lo", "Tmin_up", "fshape_b"):
                setattr(ns, k, getattr(c, k))
        else:
            ns.PolHeatStress = rng.choice([0, 1]); ns.PolColdStress = rng.choice([0, 1])
            ns.Tmax_lo = rnd_grid(rng, 25, 45, 1.0); ns.Tmax_up = ns.Tmax_lo + rnd_grid(rng, -5, 10, 1.0)
            ns.Tmin_up = rnd_grid(rng, 0, 15, 1.0); ns.Tmin_lo = ns.Tmin_up - rnd_grid(rng, -3, 10, 1.0)
            ns.fshape_b = rng.choice([13.8135, 5.0, 20.0])
        if mal:
            ns.PolHeatStress = rng.choice([2, -1]); ns.PolColdStress = rng.choice([2, -1])
        tmax = rnd_grid(rng, -30, 60, 0.5); tmin = rnd_grid(rng, -30, 60, 0.5)
        r, err = call(temperature_stress, ns, tmax, tmin)
        kind = "malformed" if mal else "valid"
        eh = ["N"] if err else ["S", hx(r[0])]
        ec = ["N"] if err else ["S", hx(r[1])]
        yield Case("kst_heat", "%d %s %s %s %s" % (ns.PolHeatStress, hx(ns.Tmax_lo), hx(ns.Tmax_up), hx(ns.fshape_b), hx(tmax)), eh,
                   {"flag": ns.PolHeatStress, "Tmax_lo": ns.Tmax_lo, "Tmax_up": ns.Tmax_up, "tmax": tmax}, kind)
        yield Case("kst_cold", "%d %s %s %s %s" % (ns.PolColdStress, hx(ns.Tmin_lo), hx(ns.Tmin_up), hx(ns.fshape_b), hx(tmin)), ec,
                   {"flag": ns.PolColdStress, "Tmin_lo": ns.Tmin_lo, "Tmin_up": ns.Tmin_up, "tmin": tmin}, kind)


def gen_aer(rng, n):
    for i in range(n):
        S = rnd_grid(rng, 0.3, 0.6, 0.01)
        aer = S - rnd_grid(rng, 0.01, 0.2, 0.01)
        act = rnd_grid(rng, 0.05, S, 0.005)
        lag = float(rng.choice([3, 3, 5, 1]))
        days = float(rng.randint(0, int(lag)))
        th = types.SimpleNamespace(S=S, Act=act, Aer=aer)
        r, err = call(aeration_stress, days, lag, th)
        exp = ["N"] if err else ["S", hx(r[0]), hx(r[1])]
        yield Case("aeration_stress", " ".join(hx(x) for x in (days, lag, S, act, aer)), exp,
                   {"days": days, "lag": lag, "S": S, "Act": act, "Aer": aer})


def canopy_params(rng):
    c = crop_obj(rng.choice(CROPS))
    if rng.random() < 0.7:
        cc0 = float(c.CC0); ccx = float(c.CCx)
        cgc = float(c.CGC_CD if c.CGC_CD > 0 else c.CGC); cdc = float(c.CDC_CD if c.CDC_CD > 0 else c.CDC)
        if cgc <= 0: cgc = 0.1
        if cdc <= 0: cdc = 0.05
    else:
        ccx = rnd_grid(rng, 0.05, 1.0, 0.05); cc0 = ccx * rng.uniform(0.001, 0.45)
        cgc = rng.uniform(0.002, 0.3); cdc = rng.uniform(0.002, 0.3)
    return cc0, ccx, cgc, cdc


def gen_cc(rng, n):
    for i in range(n):
        cc0, ccx, cgc, cdc = canopy_params(rng)
        grow = rng.random() < 0.5
        dt = rnd_grid(rng, 0, 250 if cgc > 0.03 else 2500, 1.0)
        if grow:
            ccx_arg = ccx * rng.choice([1, 1, 0.8, 0.3]); ccx0 = ccx
        else:
            ccx_arg = ccx * rng.choice([1, 1, 0.6, 0.0005]); ccx0 = ccx
        r = cc_development(cc0, ccx_arg, cgc, cdc, dt, "Growth" if grow else "Decline", ccx0)
        yield Case("cc_development", " ".join([hx(cc0), hx(ccx_arg), hx(cgc), hx(cdc), hx(dt), tb(grow), hx(ccx0)]), [hx(r)],
                   {"CC0": cc0, "CCx": ccx_arg, "CGC": cgc, "CDC": cdc, "dt": dt, "mode": "Growth" if grow else "Decline", "CCx0": ccx0})


def gen_ccreq(rng, n):
    for i in range(n):
        cc0, ccx, cgc, cdc = canopy_params(rng)
        if rng.random() < 0.5:
            ccp = cc0 + (ccx - cc0) * rng.uniform(0.001, 0.999)
            if rng.random() < 0.1: ccp = ccx / 2
            r = cc_required_time(ccp, cc0, ccx, cgc, cdc, "CGC")
            yield Case("cc_required_time_cgc", " ".join(hx(x) for x in (ccp, cc0, ccx, cgc)), [hx(r)],
                       {"cc_prev": ccp, "CC0": cc0, "CCx": ccx, "CGC": cgc})
        else:
            ccp = ccx * rng.uniform(0.001, 1.0)
            r = cc_required_time(ccp, cc0, ccx, cgc, cdc, "CDC")
            yield Case("cc_required_time_cdc", " ".join(hx(x) for x in (ccp, ccx, cdc)), [hx(r)],
                       {"cc_prev": ccp, "CCx": ccx, "CDC": cdc})


def gen(rng, n):
    k = max(1, n // 6)
    for g in (gen_gdd, gen_ws, gen_kst, gen_aer, gen_cc, gen_ccreq):
        yield from g(rng, k)
