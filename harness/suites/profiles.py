"""random soil profiles (SoilProfile objects of /repo) and states for the L1 suites"""
import numpy as np
from common import *
from aquacrop.entities.soilProfile import SoilProfile

LAYER_LIB = [  # th_wp, th_fc, th_s, Ksat  (built-in soils + extremes)
    (0.39, 0.54, 0.55, 35), (0.23, 0.39, 0.5, 125), (0.1, 0.3, 0.5, 500), (0.15, 0.31, 0.46, 500), (0.08, 0.16, 0.38, 2200),
    (0.06, 0.13, 0.36, 3000), (0.27, 0.39, 0.5, 35), (0.20, 0.32, 0.47, 225), (0.10, 0.22, 0.41, 1200), (0.09, 0.33, 0.43, 500),
    (0.23, 0.44, 0.52, 150), (0.13, 0.33, 0.46, 575), (0.32, 0.50, 0.54, 100), (0.32, 0.50, 0.54, 15), (0.39, 0.54, 0.55, 2),
    (0.24, 0.40, 0.50, 155), (0.11, 0.33, 0.46, 500)]


def tau_of(ksat):
    t = round(0.0866 * (ksat ** 0.35), 2)
    return 1 if t > 1 else (0 if t < 0 else t)


def gen_profile(rng, ncomp=None, water_table=False):
    n = ncomp or rng.choice([1, 2, 3, 5, 8, 12, 12, 12, 15, 20])
    if rng.random() < 0.5:
        dz = [0.1] * n
    else:
        dz = [rng.choice([0.05, 0.1, 0.1, 0.15, 0.2, 0.25, 0.3]) for _ in range(n)]
    nl = min(n, rng.choice([1, 1, 2, 3]))
    cuts = sorted(rng.sample(range(1, n), nl - 1)) if nl > 1 else []
    layer = []
    li = 1
    for i in range(n):
        if cuts and i == cuts[0]:
            cuts.pop(0); li += 1
        layer.append(li)
    props = []
    for _ in range(nl):
        if rng.random() < 0.7:
            props.append(rng.choice(LAYER_LIB))
        else:
            wp = round(rng.uniform(0.03, 0.38), 3); fc = round(wp + rng.uniform(0.04, 0.22), 3)
            s = round(fc + rng.uniform(0.01, 0.2), 3)
            props.append((wp, fc, s, rng.choice([1, 2, 15, 100, 500, 1200, 3000, float(round(rng.uniform(1, 3000), 1))])))
    p = SoilProfile(n)
    p.dz = np.array(dz, dtype=float)
    p.dzsum = np.cumsum(p.dz).round(2)
    p.zBot = p.dzsum.copy()
    p.z_top = p.zBot - p.dz
    p.zMid = (p.z_top + p.zBot) / 2
    p.Comp = np.arange(n, dtype=np.int64)
    p.Layer = np.array(layer, dtype=np.int64)
    for i in range(n):
        wp, fc, s, k = props[layer[i] - 1]
        p.th_wp[i] = wp; p.th_fc[i] = fc; p.th_s[i] = s; p.th_dry[i] = wp / 2; p.Ksat[i] = k; p.tau[i] = tau_of(k)
        p.Penetrability[i] = 100
    p.th_fc_Adj = p.th_fc.copy()
    if water_table:
        for i in range(n):
            p.aCR[i] = -0.3112 - p.Ksat[i] / 100000; p.bCR[i] = -1.4936 + 0.2416 * np.log(p.Ksat[i])
    return p


def gen_th(rng, p, fcadj=None):
    """water contents drawn from {dry, wp, fc, fcadj, s, uniform between}"""
    th = np.zeros(len(p.dz))
    mode = rng.choice(["mix", "mix", "fc", "wet", "dry", "sat"])
    for i in range(len(th)):
        lo, hi = p.th_dry[i], p.th_s[i]
        m = mode if mode != "mix" else rng.choice(["u", "u", "fc", "wp", "s", "dry", "adj"])
        if m == "fc": th[i] = p.th_fc[i]
        elif m == "wp": th[i] = p.th_wp[i]
        elif m in ("s", "sat"): th[i] = p.th_s[i]
        elif m == "dry": th[i] = p.th_dry[i] if rng.random() < 0.5 else rng.uniform(p.th_dry[i], p.th_wp[i])
        elif m == "wet": th[i] = rng.uniform(p.th_fc[i], p.th_s[i])
        elif m == "adj" and fcadj is not None: th[i] = fcadj[i]
        else: th[i] = rng.uniform(lo, hi)
    return th


def tprof(p):
    """token encoding of a profile for drvlib.rprof"""
    toks = [str(len(p.dz))]
    for i in range(len(p.dz)):
        toks += [hx(p.dz[i]), hx(p.dzsum[i]), hx(p.zMid[i]), str(int(p.Layer[i])), hx(p.th_dry[i]), hx(p.th_wp[i]), hx(p.th_fc[i]),
                 hx(p.th_s[i]), hx(p.Ksat[i]), hx(p.tau[i]), hx(p.Penetrability[i]), hx(p.aCR[i]), hx(p.bCR[i])]
    return " ".join(toks)


def prof_info(p):
    return {"dz": p.dz.tolist(), "layer": p.Layer.tolist(), "th_wp": p.th_wp.tolist(), "th_fc": p.th_fc.tolist(), "th_s": p.th_s.tolist(),
            "Ksat": p.Ksat.tolist(), "tau": p.tau.tolist()}
