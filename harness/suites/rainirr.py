"""L1: rainfall_partition, irrigation, growth_stage  (unit rainirr)

Argument types follow the call sites in run_single_timestep.py (checked in a scratch run): precipitation, curve number,
bund height, efficiencies, maxima are Python floats/ints (so `**` is libm pow and x/0 raises), water contents, SMT and
Schedule are numpy arrays, Epot/Tpot/IrrCum are float or np.float64."""
import types, math, collections
import numpy as np
from common import *
from l1 import Case
from suites.profiles import *
install_libm_proxy()
from aquacrop.solution.rainfall_partition import rainfall_partition
from aquacrop.solution.irrigation import irrigation
from aquacrop.solution.growth_stage import growth_stage
from aquacrop.solution.root_zone_water import root_zone_water

COVER = collections.Counter()     # branch coverage of the generated cases (filled while generating)
ERRS = (IndexError, AssertionError, ZeroDivisionError, UnboundLocalError, ValueError)


# ------------------------------------------------------------------------------ rainfall_partition
def _adjusted_cn(cn, th, zcn, ncomp, prof):
    """harness-side copy of the antecedent-moisture adjustment (input generation only: used to put the rain
    exactly on the initial abstraction 0.05*S); returns None when the real code would raise"""
    try:
        bot = round(1.4 * math.exp(-14 * math.log(10)) + (0.507 * cn) - (0.00374 * cn ** 2) + (0.0000867 * cn ** 3))
        top = round(5.6 * math.exp(-14 * math.log(10)) + (2.33 * cn) - (0.0209 * cn ** 2) + (0.000076 * cn ** 3))
        k = int(ncomp - int((prof.dzsum >= zcn).sum())) + 1
        xx = 0; wet = 0
        for i in range(k):
            zz = min(float(prof.dzsum[i]), zcn)
            wx = 1.016 * (1 - math.exp(-4.16 * (zz / zcn)))
            w = min(1.0, max(0.0, wx - xx)); xx = wx
            t = max(prof.th_wp[i], th[i])
            wet = wet + w * ((t - prof.th_wp[i]) / (prof.th_fc[i] - prof.th_wp[i]))
        wet = min(1, max(0, wet))
        return round(bot + (top - bot) * wet)
    except Exception:
        return None


def gen_rain(rng, n):
    for _ in range(n):
        mal = rng.random() < 0.04
        p = gen_profile(rng)
        th = gen_th(rng, p)
        ncomp = len(p.dz)
        tot = float(p.dzsum[-1])
        # field management
        r = rng.random()
        srinhb = r < 0.08
        bunds = 0.08 <= r < 0.22
        zbund = rng.choice([0.0, 0.0005, 0.001, 0.05, 0.1, 0.2]) if bunds or rng.random() < 0.1 else 0.0
        daysub = rng.choice([0, 0, 1, 3, 7])
        pct = rng.choice([0, 0, 0, 0, -10, -5, 5, 10, 20, -20, 2.5, -7.5])
        cn0 = rng.choice([61, 46, 72, 77, 30, 35, 50, 65, 85, 90, 95, 100, rng.randint(30, 100), round(rng.uniform(30, 100), 1)])
        adj = rng.choice([1, 1, 1, 0, 0])
        if rng.random() < 0.02:
            adj = 2
        zcn = rng.choice([0.3, 0.3, 0.05, 0.1, 0.15, 0.2, 0.25, 0.3, 0.35, 0.4, 0.45, 0.5, 0.55, round(rng.uniform(0.05, 0.55), rng.choice([2, 3]))])
        if mal:
            m = rng.choice(["cn>100", "cn>100", "den0", "cn0", "zcn_deep", "short_th", "ncomp"])
            if m == "cn>100":
                cn0 = rng.choice([101, 110, 120, 150, 200, 100]); pct = rng.choice([0, 10, 20, 50])
                if cn0 == 100 and pct == 0: pct = 10
            elif m == "den0":
                cn0 = rng.choice([110, 127, 150, 200]); pct = 0; adj = 0
            elif m == "cn0":
                cn0 = rng.choice([0, 0, 0.5, 1]); pct = rng.choice([0, -100])
            elif m == "zcn_deep":
                zcn = tot + rng.choice([0.01, 0.5, 1.0]); adj = 1
            elif m == "short_th":
                th = th[:rng.randint(0, max(0, min(ncomp - 1, 2)))]; adj = 1
            elif m == "ncomp":
                ncomp = ncomp + rng.choice([1, 2, -1, -2, -30]); adj = 1
        else:
            m = None
            if zcn > tot:
                zcn = tot      # z_cn on the bottom of the profile is still valid (last compartment)
            # keep the effective curve number <= 100 in the valid stream
            if cn0 * (1 + pct / 100) > 100:
                pct = 0
        # rain: 0..300, exactly on the initial abstraction, just around it
        cn = cn0 * (1 + (pct / 100))
        cneff = cn
        if adj == 1:
            cneff = _adjusted_cn(cn, th, zcn, ncomp, p)
        S = None
        try:
            S = (25400 / cneff) - 254
        except Exception:
            pass
        r = rng.random()
        if r < 0.12:
            P = 0.0
        elif r < 0.30 and S is not None:
            P0 = (5 / 100) * S
            P = rng.choice([P0, P0, math.nextafter(P0, math.inf), math.nextafter(P0, -math.inf), P0 + 0.001, P0 * 0.999])
        elif r < 0.5:
            P = float(rng.choice([0.1, 0.5, 1, 2, 5, 10, 25, 50, 100, 150, 200, 300]))
        else:
            P = round(rng.uniform(0, 300), rng.choice([1, 1, 2, 6]))
        if m == "den0" and S is not None:
            P = -((1 - (5 / 100)) * S)
        P = float(P)
        try:
            ro, infl, ds = rainfall_partition(P, th, daysub, flagtype(rng, srinhb), flagtype(rng, bunds), zbund, pct, cn0, adj, zcn, ncomp, p)
            exp = ["S", hx(ro), hx(infl), str(int(ds))]
            if srinhb or (bunds and not zbund < 0.001):
                COVER["rp:bunds/sr_inhb"] += 1
            else:
                COVER["rp:adj_cn on" if adj == 1 else "rp:adj_cn off"] += 1
                COVER["rp:runoff>0" if ro > 0 else "rp:runoff=0"] += 1
                if S is not None and P == (5 / 100) * S:
                    COVER["rp:P == 0.05*S exactly"] += 1
                if adj == 1 and not any(abs(float(z) - zcn) < 1e-9 for z in p.dzsum):
                    COVER["rp:z_cn off a compartment boundary"] += 1
                if adj == 1 and zcn < float(p.dzsum[0]):
                    COVER["rp:z_cn inside first compartment"] += 1
                if cneff is not None and cneff > 100:
                    COVER["rp:cn_eff > 100"] += 1
                if ro < 0:
                    COVER["rp:runoff<0 (cn>100)"] += 1
        except ERRS as e:
            exp = ["N"]
            COVER["rp:raises " + type(e).__name__] += 1
        line = " ".join([hx(P), tl(th), str(daysub), tb(srinhb), tb(bunds), hx(zbund), hx(pct), hx(cn0), str(adj), hx(zcn),
                         str(ncomp), tprof(p)])
        yield Case("rainfall_partition", line, exp,
                   {"P": P, "th": list(map(float, th)), "daysub": daysub, "srinhb": srinhb, "bunds": bunds, "zbund": zbund, "pct": pct,
                    "cn": cn0, "adj_cn": adj, "z_cn": zcn, "ncomp": ncomp, "prof": prof_info(p), "mal": m},
                   "malformed" if (mal and exp == ["N"]) else "valid")


# ------------------------------------------------------------------------------ irrigation
def _num(rng, x):
    """the same value as Python float or np.float64 (both occur at the call site)"""
    return np.float64(x) if rng.random() < 0.5 else float(x)


def gen_irr(rng, n):
    for _ in range(n):
        mal = rng.random() < 0.04
        p = gen_profile(rng)
        th = gen_th(rng, p)
        tot = float(p.dzsum[-1])
        zmin = rng.choice([0.2, 0.3, 0.3, 0.1, 0.45])
        zroot = rng.choice([0.0, zmin, round(rng.uniform(0.05, tot), rng.choice([2, 3, 6]))])
        if max(zroot, zmin) > tot:
            zmin = min(zmin, tot); zroot = min(zroot, tot)
        ztop = max(rng.choice([0.1, 0.1, 0.05, 0.2, 0.33]), float(p.dz[0]))
        aer = rng.choice([5, 5, 2, 15])
        crop = types.SimpleNamespace(Zmin=zmin, Aer=aer)
        method = rng.choice([0, 1, 1, 1, 2, 2, 3, 3, 4, 5, 5])
        if method in (1, 2) and rng.random() < 0.5:   # a depleted profile, so that a request is actually made
            u = rng.random()
            th = np.array([p.th_wp[i] + u * rng.random() * (p.th_fc[i] - p.th_wp[i]) for i in range(len(th))])
        gs = rng.random() < 0.9
        eff = rng.choice([100.0, 100.0, 90.0, 75.0, 70.0, 50.0, 0.0, float(rng.randint(0, 100)), round(rng.uniform(0, 100), 1)])
        maxirr = rng.choice([25.0, 25.0, 0.0, 5.0, 10.0, 15.0, 50.0, 1000.0, round(rng.uniform(0, 60), 1)])
        maxseason = rng.choice([10_000.0, 10_000, 10_000.0, 0.0, 50.0, 100.0, 300.0, float(rng.randint(0, 600))])
        rr = rng.random()
        if rr < 0.35: irrcum = 0
        elif rr < 0.5: irrcum = float(maxseason)
        elif rr < 0.65: irrcum = max(0.0, float(maxseason) - rng.choice([1.0, 5.0, 10.0, 25.0, 0.5, 24.999]))
        elif rr < 0.7: irrcum = float(maxseason) + rng.choice([0.5, 10.0])
        else: irrcum = round(rng.uniform(0, 700), rng.choice([0, 1, 3]))
        irrcum = _num(rng, irrcum) if irrcum != 0 or rng.random() < 0.5 else 0
        rain = float(rng.choice([0.0, 0.0, 0.0, 1.0, 5.0, 12.5, 40.0, round(rng.uniform(0, 80), 1)]))
        runoff = 0 if rain == 0 or rng.random() < 0.6 else round(rng.uniform(0, rain), 3)
        epot = _num(rng, rng.choice([0.0, 0.5, 1.2, 3.3, round(rng.uniform(0, 8), 3)]))
        tpot = _num(rng, rng.choice([0.0, 0.0, 2.5, 5.1, round(rng.uniform(0, 9), 3)]))
        stage = rng.choice([1, 2, 3, 4, 1, 2, 3, 4, 0])
        dap = rng.choice([1, 1, 2, 3, 4, 5, 6, 7, 8, 9, 10, 15, 22, 29, 30, 31, rng.randint(1, 200)])
        if not gs:
            dap = 0; stage = 0
        interval = rng.choice([1, 2, 3, 3, 5, 7, 7, 10, 14])
        smt = np.array([float(rng.choice([100, 80, 70, 60, 50, 40, 30, 20, 0, rng.randint(0, 100)])) for _ in range(4)])
        nsched = rng.choice([1, 3, 6, 10])
        sched = np.zeros(nsched)
        for i in range(nsched):
            if rng.random() < 0.4:
                sched[i] = rng.choice([25.0, 30.0, 5.0, 10.0, 60.0, 0.0, round(rng.uniform(0, 80), 1)])
        tsc = rng.randint(0, nsched - 1)
        depth = rng.choice([0.0, 5, 5.0, 10.0, 25.0, 30.0, 2.5, round(rng.uniform(0, 40), 1)])
        m = None
        if mal:
            m = rng.choice(["method", "interval0", "tsc", "neg_sched", "stage", "zroot_deep", "short_th"])
            if m == "method": method = rng.choice([6, 7, -1, 10]); gs = True
            elif m == "interval0": method = 2; interval = 0; gs = True
            elif m == "tsc": method = 3; tsc = nsched + rng.randint(0, 3); gs = True
            elif m == "neg_sched": method = 3; sched[tsc] = -rng.choice([1.0, 0.001, 25.0]); gs = True
            elif m == "stage": method = 1; stage = rng.choice([5, 6, 9, -4, -5, -1, -2]); dap = max(dap, 2); gs = True
            elif m == "zroot_deep": zroot = tot + rng.choice([0.011, 0.5]); gs = True
            elif m == "short_th": th = th[:rng.randint(0, 1)]; gs = True; zroot = tot
            if not gs: dap = 0
            if gs and dap == 0: dap = 3
        elif gs and method == 1 and rng.random() < 0.5:
            # soil-moisture threshold: put depletion / TAW on or next to the threshold of the active stage
            try:
                rz = root_zone_water(p, float(zroot), th, ztop, float(zmin), aer)
                dr, taw, act, fc = rz[2], rz[4], rz[5], rz[6]
                abv = (act - fc) * 1000 * max(zroot, zmin) if act > fc else 0
                st = 1 if dap == 1 else stage
                s = smt[int(st) - 1]
                target = (1 - s / 100) * taw
                # choose tpot so that Dr + tpot + epot - rain + runoff - abv ~ target
                t0 = target - dr - float(epot) + rain - runoff + abv
                t0 += rng.choice([0.0, 0.0, 0.0, 1e-9, -1e-9, 0.5, -0.5])
                if 0 <= t0 < 60:
                    tpot = _num(rng, t0)
                else:
                    depl = dr + (float(tpot) + float(epot) - rain + runoff - abv)
                    if taw > 0:
                        smt[int(st) - 1] = (1 - depl / taw) * 100 + rng.choice([0.0, 0.0, 1e-9, -1e-9])
            except Exception:
                pass
        elif gs and method == 2 and rng.random() < 0.5:
            dap = 1 + interval * rng.randint(0, 12) + rng.choice([0, 0, 0, 1, -1]) * (1 if interval > 1 else 0)
            dap = max(dap, 1)
        try:
            depl, taw, cum, irr = irrigation(method, smt, eff, maxirr, interval, sched, depth, maxseason, stage, irrcum, epot, tpot, zroot,
                                             th, dap, tsc, crop, p, ztop, gs, rain, runoff)
            exp = ["S", hx(depl), hx(taw), hx(cum), hx(irr)]
            if not gs:
                COVER["irr:off-season"] += 1
            else:
                COVER["irr:method %d" % method] += 1
                COVER["irr:method %d, Irr>0" % method if irr > 0 else "irr:method %d, Irr=0" % method] += 1
                if irr > 0 and irr == maxirr: COVER["irr:daily cap binding"] += 1
                if float(cum) == float(maxseason) and method not in (0, 4): COVER["irr:seasonal cap binding (IrrCum'=Max)"] += 1
                if float(irrcum) > float(maxseason): COVER["irr:IrrCum already above seasonal max"] += 1
                if eff != 100.0 and method in (1, 2) and irr > 0: COVER["irr:efficiency < 100 applied"] += 1
                if method == 2 and (dap - 1) % interval == 0: COVER["irr:interval day hit"] += 1
                if method == 3 and sched[tsc] > 0: COVER["irr:schedule hit"] += 1
                if method == 1:
                    st = 1 if dap == 1 else stage
                    COVER["irr:smt index %d" % (int(st) - 1)] += 1
                    if taw > 0:
                        d = depl / taw - (1 - smt[int(st) - 1] / 100)
                        if d == 0: COVER["irr:smt exactly on threshold"] += 1
                        elif abs(d) < 1e-9: COVER["irr:smt within 1e-9 of threshold"] += 1
                if depl < 0: COVER["irr:depletion<0"] += 1
        except ERRS as e:
            exp = ["N"]
            COVER["irr:raises " + type(e).__name__] += 1
        line = " ".join([str(method), tl(smt), hx(eff), hx(maxirr), str(interval), tl(sched), hx(depth), hx(maxseason), str(stage),
                         hx(irrcum), hx(epot), hx(tpot), hx(zroot), tl(th), str(dap), str(tsc), hx(zmin), hx(aer), tprof(p), hx(ztop),
                         tb(gs), hx(rain), hx(runoff)])
        yield Case("irrigation", line, exp,
                   {"method": method, "smt": smt.tolist(), "eff": eff, "maxirr": maxirr, "interval": interval, "sched": sched.tolist(),
                    "depth": depth, "maxseason": maxseason, "stage": stage, "irrcum": float(irrcum), "epot": float(epot), "tpot": float(tpot),
                    "zroot": zroot, "th": list(map(float, th)), "dap": dap, "tsc": tsc, "zmin": zmin, "aer": aer, "prof": prof_info(p),
                    "ztop": ztop, "gs": gs, "rain": rain, "runoff": runoff, "mal": m},
                   "malformed" if (mal and exp == ["N"]) else "valid")


# ------------------------------------------------------------------------------ growth_stage
def gen_gs(rng, n):
    for _ in range(n):
        mal = rng.random() < 0.04
        cal = rng.choice([1, 2])
        if mal:
            cal = rng.choice([0, 3])
        gs = rng.random() < 0.9 or mal
        c10 = rng.choice([10, 14, 20, 25.0, round(rng.uniform(50, 300), 1)])
        maxcan = c10 + rng.choice([30, 45, 60.0, round(rng.uniform(100, 500), 1)])
        sen = maxcan + rng.choice([20, 40, 80.0, round(rng.uniform(100, 600), 1)])
        dap = rng.randint(0, 250); dcds = rng.choice([0, 0, 0, 1, 5, 20])
        gddcum = rng.choice([float(c10), float(maxcan), float(sen), round(rng.uniform(0, 2000), 2)])
        dgdd = rng.choice([0.0, 0.0, 12.5, round(rng.uniform(0, 100), 2)])
        if rng.random() < 0.3:   # land exactly on a threshold (calendar type 1)
            dap = int(rng.choice([c10, maxcan, sen])) + dcds + rng.choice([0, 0, 1, -1])
        old = rng.choice([0, 1, 2, 3, 4])
        crop = types.SimpleNamespace(CalendarType=cal, Canopy10Pct=c10, MaxCanopy=maxcan, Senescence=sen)
        ic = types.SimpleNamespace(dap=dap, delayed_cds=dcds, gdd_cum=gddcum, delayed_gdds=dgdd, growth_stage=old)
        try:
            r = growth_stage(crop, ic, gs)
            exp = ["S", str(int(r.growth_stage))]
            COVER["gs:stage %d" % int(r.growth_stage)] += 1
        except ERRS as e:
            exp = ["N"]
            COVER["gs:raises " + type(e).__name__] += 1
        line = " ".join([str(cal), str(dap), str(dcds), hx(gddcum), hx(dgdd), hx(c10), hx(maxcan), hx(sen), str(old), tb(gs)])
        yield Case("growth_stage", line, exp, {"cal": cal, "dap": dap, "dcds": dcds, "gddcum": gddcum, "dgdd": dgdd, "c10": c10,
                                               "maxcan": maxcan, "sen": sen, "old": old, "gs": gs},
                   "malformed" if (mal and exp == ["N"]) else "valid")


def gen(rng, n):
    n_gs = max(1, n // 10)
    n_rp = (n - n_gs) // 2
    n_ir = n - n_gs - n_rp
    yield from gen_rain(rng, n_rp)
    yield from gen_irr(rng, n_ir)
    yield from gen_gs(rng, n_gs)
