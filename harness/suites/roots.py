"""L1: root_development, germination, pre_irrigation  (model: coq/theories/Crop/Roots.v, driver unit `roots`)

Crop objects are genuine: `AquaCropModel(...)._initialize()` -> `_param_struct.Seasonal_Crop_List[0]` for every catalogue
crop (calendar and GDD), on built-in soils and on `Soil('custom')` profiles with restrictive layers (penetrability < 100);
in a share of the cases a copy of the crop with perturbed rooting parameters is used.  Profiles are the genuine ones of the
initialised models or synthetic ones from suites/profiles.py with Penetrability < 100 in some layers.

Coverage: set `roots.TRACE = True` (or call `coverage(n)`) to record, per call, which source lines of the three Python
functions ran; `roots.COVER` then holds the number of cases per branch label."""
import sys, copy, types, collections, inspect
import numpy as np
from common import *
from l1 import Case
from suites.profiles import *

install_libm_proxy()
from aquacrop.solution.root_development import root_development
from aquacrop.solution.germination import germination
from aquacrop.solution.pre_irrigation import pre_irrigation
from aquacrop.entities.crops.crop_params import crop_params

CROPS = sorted(crop_params.keys())
TRACE = False
COVER = collections.Counter()
ERRS = (UnboundLocalError, IndexError, ZeroDivisionError, AssertionError)

# --------------------------------------------------------------------------------------------------------
# line-coverage labels: (stripped source line, occurrence) -> label
_LABELS = {
    root_development: [
        ("NewCond_Zroot = float(Crop.Zmin) * 1.0", 0, "rd.dap1_init"),
        ("tAdj = NewCond_DAP - NewCond_DelayedCDs", 0, "rd.calendar_days"),
        ("tAdj = NewCond_GDDcum - NewCond_DelayedGDDs", 0, "rd.calendar_gdd"),
        ("ZrOld = Crop.Zmax", 0, "rd.old_at_max"), ("ZrOld = Zini", 0, "rd.old_before_t0"),
        ("ZrOld = Zini + (Crop.Zmax - Zini) * np.power(X, 1 / Crop.fshape_r)", 0, "rd.old_curve"),
        ("ZrOld = Crop.Zmin", 0, "rd.old_clamped_zmin"),
        ("Zr = Crop.Zmax", 0, "rd.new_at_max"), ("Zr = Zini", 0, "rd.new_before_t0"),
        ("Zr = Zini + (Crop.Zmax - Zini) * np.power(X, 1 / Crop.fshape_r)", 0, "rd.new_curve"),
        ("Zr = Crop.Zmin", 0, "rd.new_clamped_zmin"),
        ("Zr = _restricted_depth(Zr)", 0, "rd.walk_entered"), ("ZrOld = _restricted_depth(ZrOld)", 0, "rd.walk_yesterday_too"),
        ("layeri = layeri + 1", 0, "rd.skip_shallow_layer"), ("layeri = layeri + 1", 1, "rd.walk_next_layer"),
        ("dZr = dZr * NewCond_TrRatio", 0, "rd.stomatal_linear"), ("dZr = dZr * fAdj", 0, "rd.stomatal_exp"),
        ("pZexp = Crop.p_up[1] + ((1 - Crop.p_up[1]) / 2)", 0, "rd.front_checked"),
        ("dZr = 0", 0, "rd.front_fully_inhibited"), ("dZr = dZr * Ks", 0, "rd.front_partially_inhibited"),
        ("dZr = 0", 1, "rd.early_senescence"), ("dZr = 0", 2, "rd.not_germinated"),
        ("NewCond_rCor = NewCond_rCor * NewCond_TrRatio", 0, "rd.rcor_restricted_tpot"),
        ("NewCond_rCor = 1", 0, "rd.rcor_clamped_1"), ("NewCond_rCor = 1", 1, "rd.rcor_unrestricted"),
        ("NewCond_Zroot = float(NewCond_zGW)", 0, "rd.table_clip"),
        ("NewCond_Zroot = float(Crop.Zmin)", 0, "rd.table_clip_zmin"),
        ("NewCond_Zroot = 0", 0, "rd.off_season"),
    ],
    germination: [
        ("comp_sto = np.argwhere(prof.dzsum >= Soil_zGerm).flatten()[0]", 0, "ge.checked"),
        ("factor = 1 - ((prof.dzsum[ii] - Soil_zGerm) / prof.dz[ii])", 0, "ge.partial_compartment"),
        ("Wr = 0", 1, "ge.wr_clamped"),
        ("NewCond.germination = True", 0, "ge.germinated"),
        ("NewCond.protected_seed = True", 0, "ge.protected"),
        ("NewCond.delayed_cds = InitCond.delayed_cds + 1", 0, "ge.delayed"),
        ("NewCond.delayed_cds = 0", 0, "ge.off_season"),
    ],
    pre_irrigation: [
        ("PreIrr = 0", 0, "pi.inert"), ("PreIrr = 0", 1, "pi.active"), ("PreIrr = 0", 2, "pi.off_season"),
        ("NewCond.th[ii] = thCrit", 0, "pi.raised_some"),
    ],
}
_LINEMAP = {}


def _linemap(fn):
    if fn not in _LINEMAP:
        src, first = inspect.getsourcelines(fn)
        seen = collections.Counter()
        want = {(s, k): lab for s, k, lab in _LABELS[fn]}
        m = {}
        for i, l in enumerate(src):
            s = l.strip()
            if (s, seen[s]) in want:
                m[first + i] = want[(s, seen[s])]
            seen[s] += 1
        _LINEMAP[fn] = m
    return _LINEMAP[fn]


def call(fn, *a):
    """run fn; returns (result | None, error name | None); records branch coverage when TRACE"""
    if not TRACE:
        try:
            return fn(*a), None
        except ERRS as e:
            return None, type(e).__name__
    code = fn.__code__
    lines = set()

    def loc(frame, ev, arg):
        if ev == "line":
            lines.add(frame.f_lineno)
        return loc

    def tr(frame, ev, arg):
        # the function's own frame and the frames of helpers nested in it (same file, inside its line range)
        return loc if frame.f_code.co_filename == code.co_filename and frame.f_code.co_firstlineno >= code.co_firstlineno else None

    sys.settrace(tr)
    try:
        r, err = fn(*a), None
    except ERRS as e:
        r, err = None, type(e).__name__
    finally:
        sys.settrace(None)
    m = _linemap(fn)
    for ln in lines:
        if ln in m:
            COVER[m[ln]] += 1
    COVER[fn.__name__ + ".calls"] += 1
    if err:
        COVER[fn.__name__ + ".raises_" + err] += 1
    return r, err


# --------------------------------------------------------------------------------------------------------
# genuine crops and profiles
_pool = None


def _soils(rng):
    from aquacrop import Soil
    out = []
    for name in ("SandyLoam", "Clay", "Loam", "ClayLoam", "Paddy"):
        out.append(lambda name=name: Soil(name))

    def custom(dz, layers):
        def mk():
            s = Soil("custom", dz=list(dz))
            for l in layers:
                s.add_layer(*l)
            return s
        return mk
    out.append(custom([0.05] * 4 + [0.1] * 6 + [0.2] * 5, [(0.35, 0.1, 0.22, 0.41, 1200, 100), (0.5, 0.23, 0.39, 0.5, 125, 40), (2.0, 0.15, 0.31, 0.46, 500, 75)]))
    out.append(custom([0.1] * 12, [(0.2, 0.1, 0.22, 0.41, 1200, 100), (0.3, 0.23, 0.39, 0.5, 125, 60), (0.3, 0.15, 0.31, 0.46, 500, 20), (0.4, 0.2, 0.32, 0.47, 225, 90)]))
    out.append(custom([0.1] * 12, [(0.4, 0.13, 0.33, 0.46, 575, 80), (0.8, 0.32, 0.5, 0.54, 100, 0)]))
    out.append(custom([0.15] * 10, [(0.3, 0.1, 0.3, 0.5, 500, 50), (1.2, 0.27, 0.39, 0.5, 35, 100)]))
    out.append(custom([0.1] * 20, [(0.1, 0.08, 0.16, 0.38, 2200, 100), (0.2, 0.1, 0.22, 0.41, 1200, 70), (1.7, 0.23, 0.44, 0.52, 150, 35)]))
    out.append(custom([0.1] * 12, [(1.2, 0.2, 0.32, 0.47, 225, 55)]))
    return out


def pool():
    """[(crop name, genuine crop object, genuine SoilProfile, z_germ)] — one initialised model per entry"""
    global _pool
    if _pool is None:
        from aquacrop import AquaCropModel, Crop, InitialWaterContent
        from aquacrop.utils import prepare_weather, get_filepath
        rng = rng_for("l1", "roots", "pool")
        wdf = prepare_weather(get_filepath("tunis_climate.txt"))
        soils = _soils(rng)
        _pool = []
        for name in CROPS:
            for mk in rng.sample(soils, 3):
                m = AquaCropModel("1979/10/01", "1981/05/30", wdf, mk(), Crop(name, planting_date="10/01"), InitialWaterContent(value=["FC"]))
                m._initialize()
                _pool.append((name, m._param_struct.Seasonal_Crop_List[0], m._param_struct.Soil.Profile, float(m._param_struct.Soil.z_germ)))
    return _pool


def tcrop(c):
    return " ".join([hx(c.Zmin), hx(c.Zmax), hx(c.PctZmin), hx(c.Emergence), hx(c.MaxRooting), hx(c.fshape_r), hx(c.fshape_ex),
                     str(int(c.CalendarType)), hx(c.SxTop), hx(c.SxBot), hx(c.p_up[1]), hx(c.fshape_w[1])])


def crop_info(name, c):
    return {"crop": name, "Zmin": c.Zmin, "Zmax": c.Zmax, "PctZmin": c.PctZmin, "Emergence": c.Emergence, "MaxRooting": c.MaxRooting,
            "fshape_r": c.fshape_r, "fshape_ex": c.fshape_ex, "CalendarType": c.CalendarType, "SxTop": c.SxTop, "SxBot": c.SxBot,
            "p_up1": float(c.p_up[1]), "fshape_w1": float(c.fshape_w[1])}


def pinfo(p):
    d = prof_info(p)
    d["dzsum"] = p.dzsum.tolist(); d["Penetrability"] = p.Penetrability.tolist()
    return d


def perturb_crop(rng, c, depth):
    """copy of a genuine crop with other rooting parameters (all Python floats, as Crop.__init__ leaves them)"""
    c = copy.copy(c)
    c.p_up = np.array(c.p_up, dtype=float); c.fshape_w = np.array(c.fshape_w, dtype=float)
    c.Zmin = rng.choice([0.1, 0.2, 0.25, 0.3, 0.3, 0.45, round(rng.uniform(0.05, 0.6), 2)])
    c.Zmax = float(round(max(c.Zmin, min(rng.uniform(c.Zmin, 3.0), depth * rng.choice([0.6, 0.95, 1.0, 1.3]))), 2))
    if rng.random() < 0.1:
        c.Zmax = c.Zmin
    c.PctZmin = rng.choice([70, 70, 50, 100, 120, 33.3])
    c.fshape_r = rng.choice([1.5, 1.3, 2.5, 1.0, 0.7, 3.3])
    c.fshape_ex = rng.choice([-6, -6, -2.5, 0, 0.0, 2, -0.5])
    if rng.random() < 0.5:
        sc = rng.choice([0.5, 1.0, 2.0]) if c.CalendarType == 1 else rng.choice([0.7, 1.0, 1.6])
        c.Emergence = float(round(c.Emergence * sc)) + rng.choice([0.0, 0.0, 1.0])
        c.MaxRooting = float(round(c.MaxRooting * sc * rng.choice([0.3, 1.0, 1.0])))
    if rng.random() < 0.3:
        c.SxTop = rng.choice([0.048, 0.054, 0.02, 0.03]); c.SxBot = rng.choice([0.012, 0.006, 0.02, 0.001])
    if rng.random() < 0.3:
        c.p_up[1] = rng.choice([0.5, 0.65, 0.3, 0.9, 0.0]); c.fshape_w[1] = rng.choice([3.0, 2.5, 6.0, -2.0, 0.5])
    return c


def synth_profile(rng, zmax=None):
    """profile from suites/profiles.py, deep enough for zmax most of the time, restrictive layers in half of them"""
    p = gen_profile(rng, ncomp=rng.choice([5, 8, 12, 12, 15, 20, 25, 30]))
    nl = int(p.Layer.max())
    if rng.random() < 0.6:
        pens = [rng.choice([100, 100, 80, 50, 35.5, 10, 0]) for _ in range(nl)]
        for i in range(len(p.dz)):
            p.Penetrability[i] = pens[int(p.Layer[i]) - 1]
    return p


def pick_setup(rng):
    name, c, p, zgerm = rng.choice(pool())
    r = rng.random()
    if r < 0.45:
        return name, c, p          # genuine crop on its genuine profile
    if r < 0.65:
        p2 = synth_profile(rng)
        return name, (c if p2.dzsum[-1] >= c.Zmax else perturb_crop(rng, c, float(p2.dzsum[-1]))), p2
    if r < 0.8:
        return name + "*", perturb_crop(rng, c, float(p.dzsum[-1])), p
    p2 = synth_profile(rng)
    return name + "*", perturb_crop(rng, c, float(p2.dzsum[-1])), p2


def gen_th_front(rng, p, crop):
    """water contents that exercise the expansion-front thresholds (between wp and the p_up[1]-threshold, dry, wet)"""
    th = gen_th(rng, p)
    mode = rng.choice(["keep", "front", "front", "dry", "fc"])
    if mode == "keep":
        return th
    pz = crop.p_up[1] + ((1 - crop.p_up[1]) / 2)
    for i in range(len(th)):
        wp, fc = p.th_wp[i], p.th_fc[i]
        if mode == "fc":
            th[i] = fc
        elif mode == "dry":
            th[i] = rng.choice([wp, p.th_dry[i], rng.uniform(p.th_dry[i], wp)])
        else:
            thr = fc - pz * (fc - wp)
            th[i] = rng.choice([rng.uniform(wp, thr), rng.uniform(wp, thr), wp, thr, rng.uniform(wp, fc)])
    return th


def rd_case(name, c, p, st, kind="valid"):
    """st: dict with the scalar arguments; calls the implementation, returns (Case, result)"""
    th = np.array(st["th"], dtype=float)
    args = (c, p, st["dap"], st["zroot"], st["dcd"], st["gddcum"], st["dgdd"], st["trr"], th, st["cc"], st["ccns"], st["germ"],
            st["rcor"], st["tpot"], st["zgw"], st["gdd"], st["gs"], st["wt"])
    r, err = call(root_development, *args)
    exp = ["N"] if err else ["S", hx(r[0]), hx(r[1])]
    line = " ".join([tcrop(c), tprof(p), str(int(st["dap"])), hx(st["zroot"]), str(int(st["dcd"])), hx(st["gddcum"]), hx(st["dgdd"]),
                     hx(st["trr"]), tl(th), hx(st["cc"]), hx(st["ccns"]), tb(st["germ"]), hx(st["rcor"]), hx(st["tpot"]), hx(st["zgw"]),
                     hx(st["gdd"]), tb(st["gs"]), str(int(st["wt"]))])
    info = {"crop": crop_info(name, c), "prof": pinfo(p)}
    info.update({k: (v.tolist() if isinstance(v, np.ndarray) else v) for k, v in st.items()})
    if TRACE:
        if err is None and st["gs"] and (p.Penetrability < 100).any():
            COVER["rd.profile_has_restrictive_layer"] += 1
        if st["wt"] == 1 and 0 < st["zgw"] < p.dzsum[-1]:
            COVER["rd.table_inside_profile"] += 1
    return Case("root_development", line, exp, info, kind), (r, err)


def tr_ratio(rng):
    r = rng.random()
    if r < 0.45:
        return 1
    if r < 0.55:
        return 1.0
    if r < 0.6:
        return 0.9999
    if r < 0.65:
        return 0.0
    return np.float64(rng.uniform(0, 1))


def gen_rd_chain(rng, n):
    """daily trajectories from planting: z_root and r_cor are fed back from the implementation's outputs; delayed
    counters evolve as germination() would set them; water tables move inside the profile"""
    made = 0
    while made < n:
        name, c, p = pick_setup(rng)
        depth = float(p.dzsum[-1])
        ndays = min(n - made, rng.choice([30, 60, 120, 150]))
        th = gen_th_front(rng, p, c)
        germ_day = rng.choice([1, 1, 1, 3, 6, 12])
        wt = 1 if rng.random() < 0.4 else 0
        zgw = rng.choice([rng.uniform(0.15, depth * 1.1), rng.uniform(0.15, 1.0), -999.0]) if wt else -999.0
        stress_from = rng.choice([9999, 9999, 20, 45])
        sen_from = rng.choice([9999, 9999, 9999, 70])
        dap = 0; dcd = 0; gddcum = 0.0; dgdd = 0.0; zroot = rng.choice([0.0, float(c.Zmin), 0.3]); rcor = 1
        cc = 0.0; ccns = 0.0
        for day in range(ndays):
            dap += 1
            gdd = round(rng.uniform(0, 25), rng.choice([1, 2, 6])) if c.CalendarType == 2 or rng.random() < 0.5 else 0.0
            gddcum = gddcum + gdd
            germ = dap >= germ_day
            if rng.random() < 0.08:
                th = gen_th_front(rng, p, c)
            if wt and zgw > 0:
                zgw = float(round(min(max(0.05, zgw + rng.uniform(-0.08, 0.08)), depth * 1.2), 2))
            trr = tr_ratio(rng) if dap >= stress_from else rng.choice([1, 1, 1, 1.0])
            ccns = min(0.95, ccns + 0.02) if germ else 0.0
            cc = 0.0 if dap >= sen_from else ccns * 0.9
            st = dict(dap=dap, zroot=zroot, dcd=dcd, gddcum=gddcum, dgdd=dgdd, trr=trr, th=th, cc=cc, ccns=ccns, germ=germ, rcor=rcor,
                      tpot=rng.choice([0.0, 0, 2.5, 4.0, rng.uniform(0, 8)]), zgw=zgw, gdd=gdd, gs=True, wt=wt)
            case, (r, err) = rd_case(name, c, p, st)
            yield case
            made += 1
            if err:
                break
            zroot, rcor = r
            if not germ:           # germination() after root_development on a day without germination
                dcd += 1; dgdd = dgdd + gdd


def gen_rd_single(rng, n):
    """independent states anywhere in the season (incl. inconsistent ones the day loop would not produce)"""
    for _ in range(n):
        name, c, p = pick_setup(rng)
        depth = float(p.dzsum[-1])
        th = gen_th_front(rng, p, c)
        cal = c.CalendarType
        tmaxr = float(c.MaxRooting)
        dcd = rng.choice([0, 0, 0, 2, 7, 30])
        if cal == 1:
            dap = rng.choice([1, 1, 2, int(round(c.Emergence / 2)), int(round(c.Emergence / 2)) + 1, int(tmaxr), int(tmaxr) + 1,
                              rng.randint(1, int(tmaxr * 1.3) + 2), rng.randint(1, int(tmaxr * 1.3) + 2), rng.randint(1, int(tmaxr * 1.3) + 2)]) + dcd
            gdd = rng.choice([0.0, 12.5, rng.uniform(0, 25)]); gddcum = dap * 11.0; dgdd = dcd * 11.0
        else:
            dap = rng.choice([1, 1, 2, rng.randint(1, 200)])
            gdd = rng.choice([0.0, 12.5, round(rng.uniform(0, 25), 1), rng.uniform(0, 25)])
            dgdd = rng.choice([0.0, 0.0, 35.5, rng.uniform(0, 200)])
            gddcum = rng.choice([gdd, float(round(c.Emergence / 2)), tmaxr, tmaxr + gdd, rng.uniform(0, tmaxr * 1.3), rng.uniform(0, tmaxr * 1.3),
                                 rng.uniform(0, tmaxr * 1.3)]) + dgdd
        zroot = rng.choice([float(c.Zmin), float(c.Zmax), 0.0, round(rng.uniform(c.Zmin, max(c.Zmin, c.Zmax)), 3), rng.uniform(c.Zmin, max(c.Zmin, c.Zmax)),
                            rng.uniform(c.Zmin, max(c.Zmin, c.Zmax))])
        wt = rng.choice([0, 0, 1, 1])
        zgw = rng.choice([-999.0, 0.0, rng.uniform(0.05, depth * 1.2), rng.uniform(0.05, depth * 1.2), round(rng.uniform(0.05, 1.0), 2)])
        ccns = rng.choice([0.0, 0.3, 0.5, 0.51, 0.9]); cc = rng.choice([0.0, 0.0, ccns, ccns * 0.8])
        st = dict(dap=dap, zroot=zroot, dcd=dcd, gddcum=gddcum, dgdd=dgdd, trr=tr_ratio(rng), th=th, cc=cc, ccns=ccns,
                  germ=rng.random() < 0.85, rcor=rng.choice([1, 1.0, 1.37, 2.2]), tpot=rng.choice([0.0, 0, 2.5, rng.uniform(0, 8)]),
                  zgw=zgw, gdd=gdd, gs=rng.random() < 0.93, wt=wt)
        yield rd_case(name, c, p, st)[0]


def gen_rd_malformed(rng, n):
    """inputs on which root_development raises (or would, for some states)"""
    for _ in range(n):
        name, c, p = pick_setup(rng)
        p = copy.deepcopy(p)
        c = perturb_crop(rng, c, float(p.dzsum[-1]))
        th = gen_th_front(rng, p, c)
        how = rng.choice(["cal", "layer_gap", "short_th", "fshape_r0", "shallow", "sxbot0", "zroot0"])
        st = dict(dap=rng.randint(2, 80), zroot=float(c.Zmin), dcd=0, gddcum=rng.uniform(100, 900), dgdd=0.0, trr=1, th=th, cc=0.4, ccns=0.5,
                  germ=True, rcor=1, tpot=2.0, zgw=-999.0, gdd=10.0, gs=True, wt=0)
        if how == "cal":
            c.CalendarType = rng.choice([0, 3])
        elif how == "layer_gap":
            p.Layer = p.Layer * 2 if rng.random() < 0.5 else p.Layer + 1
        elif how == "short_th":
            st["th"] = th[: rng.randint(0, 2)]
        elif how == "fshape_r0":
            c.fshape_r = 0.0
        elif how == "shallow":
            c.Zmax = float(p.dzsum[-1]) + 1.0; st["zroot"] = float(p.dzsum[-1]); st["dap"] = int(c.MaxRooting) - 3; st["gddcum"] = c.MaxRooting - 5.0
        elif how == "sxbot0":
            c.SxBot = 0.0; st["germ"] = False
        elif how == "zroot0":
            st["zroot"] = 0.0; st["germ"] = False; st["dap"] = rng.choice([2, int(c.MaxRooting) + 5]); st["gddcum"] = rng.choice([5.0, c.MaxRooting + 50.0])
        yield rd_case(name, c, p, st, "malformed")[0]


# --------------------------------------------------------------------------------------------------------
def gen_germ(rng, n, malformed=False):
    for _ in range(n):
        name, c, gp, zg = rng.choice(pool())
        p = gp if rng.random() < 0.4 else gen_profile(rng)
        depth = float(p.dzsum[-1])
        zgerm = rng.choice([zg, zg, 0.3, 0.1, 0.2, 0.25, 0.45, round(rng.uniform(0.02, min(depth, 0.8)), 2), rng.uniform(0.02, min(depth, 0.8))])
        thr = rng.choice([float(c.GermThr), 0.2, 0.2, 0.0, 0.5, 1.0, rng.uniform(0, 1)])
        pm = rng.choice([c.PlantMethod, 1.0, 0.0, 1, 0, True, False])
        mode = rng.choice(["gen", "near", "near", "dry", "exact"])
        th = gen_th(rng, p)
        if mode != "gen":
            for i in range(len(th)):
                wp, fc = p.th_wp[i], p.th_fc[i]
                u = {"near": rng.uniform(max(0, thr - 0.15), min(1.2, thr + 0.15)), "dry": rng.uniform(-0.4, 0.05), "exact": thr}[mode]
                th[i] = wp + u * (fc - wp)
            if mode == "dry" and rng.random() < 0.3:
                th = th * 0.0 - rng.choice([0.0, 0.01])
        gs = rng.random() < 0.9
        ic = types.SimpleNamespace(germination=rng.random() < 0.2, protected_seed=rng.choice([0, False, True]), delayed_cds=rng.choice([0, 0, 3, 11]),
                                   delayed_gdds=rng.choice([0, 0.0, 35.5, rng.uniform(0, 150)]), th=th.copy())
        gdd = rng.choice([0.0, 12.5, rng.uniform(0, 25)])
        kind = "valid"
        if malformed:
            kind = "malformed"; gs = True; ic.germination = False
            if rng.random() < 0.5:
                zgerm = depth + rng.choice([0.01, 0.5])
            else:
                ic.th = th[: max(0, int(np.argwhere(p.dzsum >= zgerm).flatten()[0]) - rng.choice([0, 1]))].copy() if (p.dzsum >= zgerm).any() else th[:0]
        g0, ps0, d0, dg0, th0 = bool(ic.germination), bool(ic.protected_seed), int(ic.delayed_cds), float(ic.delayed_gdds), ic.th.copy()
        r, err = call(germination, ic, zgerm, p, thr, pm, gdd, gs)
        exp = ["N"] if err else ["S", tb(bool(r.germination)), tb(bool(r.protected_seed)), str(int(r.delayed_cds)), hx(r.delayed_gdds)]
        if not err:
            assert (r.th == th0).all()
        line = " ".join([tb(g0), tb(ps0), str(d0), hx(dg0), tl(th0), hx(zgerm), tprof(p), hx(thr), hx(float(pm)), hx(gdd), tb(gs)])
        yield Case("germination", line, exp, {"prof": pinfo(p), "th": th0.tolist(), "zgerm": zgerm, "GermThr": thr, "PlantMethod": float(pm), "gdd": gdd,
                                             "gs": gs, "germination": g0, "protected_seed": ps0, "delayed_cds": d0, "delayed_gdds": dg0}, kind)


def gen_pre(rng, n, malformed=False):
    for _ in range(n):
        name, c, gp, zg = rng.choice(pool())
        p = gp if rng.random() < 0.4 else gen_profile(rng)
        depth = float(p.dzsum[-1])
        zmin = rng.choice([float(c.Zmin), 0.3, 0.2, 0.1, 0.45, 0.285])
        zroot = rng.choice([zmin, zmin, 0.0, round(rng.uniform(0.05, depth), 3), round(rng.uniform(0.05, depth), 2), rng.uniform(0.05, depth),
                            round(rng.uniform(0.05, min(depth, 1.0)), 3) + 0.005])
        th = gen_th(rng, p)
        if rng.random() < 0.5:
            for i in range(len(th)):
                th[i] = rng.choice([p.th_wp[i], rng.uniform(p.th_dry[i], p.th_fc[i]), rng.uniform(p.th_wp[i], p.th_fc[i]), th[i]])
        active = rng.random() < 0.75
        method = 4 if active else rng.choice([0, 1, 2, 3, 4, 5])
        dap = 1 if active else rng.choice([1, 2, 0, 57])
        gs = rng.random() < 0.93
        smt = rng.choice([80.0, 80.0, 50.0, 100.0, 0.0, 33.3, rng.uniform(0, 100), 120.0])
        kind = "valid"
        if malformed:
            kind = "malformed"; gs = True; method = 4; dap = 1
            if rng.random() < 0.5:
                zroot = depth + rng.choice([0.02, 0.7])
            else:
                zroot = round(rng.uniform(min(depth, 0.25), depth), 2); zmin = 0.1
                hit = np.argwhere(p.dzsum >= round(max(zroot, zmin), 2)).flatten()
                k = int(hit[0]) if len(hit) else len(p.dz)
                th = th[: max(0, k - 1)]
        ic = types.SimpleNamespace(z_root=float(zroot), dap=dap, th=th.copy())
        crop = types.SimpleNamespace(Zmin=zmin)
        irr = types.SimpleNamespace(irrigation_method=method, NetIrrSMT=smt)
        r, err = call(pre_irrigation, p, crop, ic, gs, irr)
        exp = ["N"] if err else ["S"] + tl(r[0].th).split() + [hx(r[1])]
        line = " ".join([tprof(p), hx(zmin), hx(zroot), tl(th), str(dap), tb(gs), str(method), hx(smt)])
        yield Case("pre_irrigation", line, exp, {"prof": pinfo(p), "th": th.tolist(), "Zmin": zmin, "z_root": zroot, "dap": dap, "gs": gs,
                                                "method": method, "NetIrrSMT": smt}, kind)


def gen(rng, n):
    m = max(6, n // 100)                       # malformed share: 3 x 1 %
    k = n - 3 * (m // 3) if n >= 30 else n
    n_rd = int(k * 0.6); n_chain = int(n_rd * 0.6)
    n_ge = int(k * 0.2); n_pi = k - n_rd - n_ge
    yield from gen_rd_chain(rng, n_chain)
    yield from gen_rd_single(rng, n_rd - n_chain)
    yield from gen_germ(rng, n_ge)
    yield from gen_pre(rng, n_pi)
    if n >= 30:
        yield from gen_rd_malformed(rng, m // 3)
        yield from gen_germ(rng, m // 3, malformed=True)
        yield from gen_pre(rng, m // 3, malformed=True)


def coverage(n=20000):
    """branch coverage of the generated stream: {label: cases}"""
    global TRACE
    TRACE = True
    COVER.clear()
    try:
        cases = list(gen(rng_for("l1", "roots"), n))
    finally:
        TRACE = False
    out = dict(sorted(COVER.items()))
    out["cases"] = len(cases)
    out["result_None"] = sum(1 for c in cases if c.expect[:1] == ["N"])
    out["malformed"] = sum(1 for c in cases if c.kind == "malformed")
    return out
