"""L1: root_zone_water"""
import numpy as np
from common import *
from l1 import Case
from suites.profiles import *
install_libm_proxy()
from aquacrop.solution.root_zone_water import root_zone_water


def gen(rng, n):
    for _ in range(n):
        p = gen_profile(rng)
        th = gen_th(rng, p)
        tot = float(p.dzsum[-1])
        zmin = rng.choice([0.2, 0.3, 0.3, 0.1, 0.45])
        zroot = rng.choice([0.0, zmin, round(rng.uniform(0.05, tot * 1.15), rng.choice([2, 3, 6]))])
        ztop = max(rng.choice([0.1, 0.1, 0.05, 0.2, 0.33]), float(p.dz[0]))
        aer = rng.choice([5, 5, 2, 15])
        try:
            r = root_zone_water(p, float(zroot), th, ztop, float(zmin), aer)
            exp = ["S"] + [hx(x) for x in r]
        except (IndexError, AssertionError):
            exp = ["N"]
        line = " ".join([tprof(p), hx(zroot), tl(th), hx(ztop), hx(zmin), hx(aer)])
        yield Case("root_zone_water", line, exp, {"prof": prof_info(p), "th": th.tolist(), "zroot": zroot, "ztop": ztop, "zmin": zmin, "aer": aer})
