"""Whole-run correspondence ("L3", bit-exact) for RunConcrete.v.

A real simulation of /repo is recorded (suites/day.py recorder, one step at a time): the initialised parameter
structures as they are on the days of every season (`rpar`), the clock (number of steps, planting / harvest steps), the
weather of every simulated step, the state before the first step.  The extracted `run_till_c` then runs the WHOLE
simulation on its own — the concrete day of DayConcrete.v inside the guarded run loop of Clock.v with the season reset
of Day.v; the model's state flows from day to day, nothing recorded is fed back — and its three daily tables, its
summary rows and its final clock and state are compared bit for bit with what the implementation produced.  A run in
which a process of the implementation raises on step t must stop at step t in the model (`P t`)."""
import collections, time
from common import *
import sim
from suites import day, dayc


def sim_lines(o, parts=None):
    """driver lines and the expected output line of one recorded simulation (None if nothing was simulated)"""
    recs = sorted([(d["tsc"], d) for d in o["days"]] + [(m["tsc"], m) for m in o["malformed"] if "clock0" in m], key=lambda x: x[0])
    if not recs:
        return None, None
    lines = ["rclear"]
    seen = set()
    for _, d in recs:
        if d["season"] not in seen:
            seen.add(d["season"])
            lines.append("rpar %d %s" % (d["season"], d["hook"]))
    first = recs[0][1]
    n = o["n_steps"]
    zero = [hx(0.0)] * 5
    wmap = {t: d["weather"] for t, d in recs}
    wtoks = [str(n)]
    for t in range(n):
        wtoks += wmap.get(t, zero)
    mode = "" if not parts else " K %d %s" % (len(parts), " ".join(str(k) for k in parts))
    lines.append("runc %d %s %s %s%s" % (n, " ".join(first["clock0"]), " ".join(wtoks), " ".join(first["pre"]), mode))
    if o.get("final_tables_differ"):
        return lines, ["FINAL-TABLES-DIFFER-FROM-THE-ROWS-WRITTEN:"] + o["final_tables_differ"].split()
    # the season list must be the same on every day (it is a constant of the run in the model)
    changed = next((d for _, d in recs if d["clock0"][5:] != first["clock0"][5:]), None)
    if changed is not None:
        return lines, ["CLOCK-PARAMETERS-CHANGED-WHILE-STEPPING", "step", str(changed["tsc"])] + changed["clock0"][5:]
    # expected
    raised = [m for m in o["malformed"] if "clock0" in m]
    if raised:
        exp = ["P", str(raised[0]["tsc"])]
    elif o["error"]:
        exp = None       # the implementation raised outside the processes of a day (not the subject of this suite)
    else:
        exp = ["F"] + o["final"] + [str(len(o["days"]))]
        sums = []
        for d in o["days"]:
            r = d["exp_rows"]
            if r[-1] == "N":
                exp += ["|"] + r[:-1]
            else:
                exp += ["|"] + r[:-8]; sums.append(r[-7:])
        exp += ["#", str(len(sums))]
        for s_ in sums:
            exp += s_
    return lines, exp


def where(e, g):
    k = next((i for i, (a, b) in enumerate(zip(e, g)) if a != b), min(len(e), len(g)))
    nday = sum(1 for x in e[:k] if x == "|")
    return {"first_diff_token": k, "row_index": nday - 1 if nday else None, "in_summary": "#" in e[:k],
            "impl": e[max(0, k - 2):k + 3], "model": g[max(0, k - 2):k + 3], "n_impl": len(e), "n_model": len(g)}


def worker(payload):
    cfg = payload["cfg"]
    o = day.run_sim(cfg, None, keep=True, hook=dayc.par_hook)
    res = {"days": len(o["days"]), "error": o["error"], "agree": 0, "disagree": 0, "skipped": 0,
           "gs_days": sum(1 for d in o["days"] if d["gs"]), "summaries": sum(1 for d in o["days"] if d["summary"]),
           "seasons": len(set(d["season"] for d in o["days"] if d["season"] >= 0)),
           "resets": len(o["resets"]), "resets_gdd": sum(1 for r in o["resets"] if r["caltype"] == 2),
           "method": o["days"][0]["method"] if o["days"] else None}
    for d in o["days"]:
        for k, v in d["flags"].items():
            if v:
                res[k] = res.get(k, 0) + 1
    # premises of the whole-run theorems (C01_run / C03_run) evaluated on this configuration's initialised model
    try:
        import hyp_check
        m = sim.build_model(cfg); m._initialize()
        failed = hyp_check.check(m)
        res["premises_checked"] = 1
        res["premises_all_hold"] = int(not [f for f in failed if f != "HDap_window"])
        res["premises_hold_incl_window_bound"] = int(not failed)
        res["water_table_runs"] = int(int(m._param_struct.water_table) == 1)
        res["premise_failures"] = sorted(set(f.split(".")[0] if f.startswith("crop") or f.startswith("fallow") else f for f in failed))
        hi = hyp_check.check_crop_hi(m)
        res["crop_rows_premises_checked"] = 1
        res["crop_rows_premises_all_hold"] = int(not hi and res["premises_all_hold"])
        res["premise_failures"] += sorted(set("ParHIOK." + f.split(".", 1)[1] for f in hi))
        df = hyp_check.check_def_ok(m)
        res["run_completes_premises_checked"] = 1
        res["run_completes_premises_all_hold"] = int(not df and not hi and res["premises_all_hold"])
        res["premise_failures"] += sorted(set("DefOK." + (f.split(".", 1)[1] if f.startswith("crop") else f) for f in df))
    except Exception:
        pass
    # every third simulation is run by the model as a SEQUENCE OF CALLS run_model(num_steps = k) (run_steps_c) with a random
    # partition whose last call overshoots; the implementation side was advanced one step per call
    parts = None
    if payload.get("index", 0) % 3 == 2 and o["days"]:
        rng = rng_for("runc-parts", payload.get("index", 0))
        left = len(o["days"]); parts = []
        while left > 0:
            k = rng.choice([1, 1, 2, 3, 7, 30, 100, 365]); parts.append(k); left -= k
        parts.append(5000)
        res["runs_by_call_partition"] = 1
    if o.get("structure"):
        res["disagree"] = 1
        res["first_bad"] = {"kind": "structure", "what": o["structure"], "cfg": cfg}
        return res
    lines, exp = sim_lines(o, parts)
    if lines is None or exp is None:
        res["skipped"] = 1
        return res
    outs = run_driver(lines, unit="dayc")
    g = [canon(x) for x in outs[-1]]; e = [canon(x) for x in exp]
    res["stopped_runs"] = int(e[0] == "P")
    if e == g:
        res["agree"] = 1
    else:
        res["disagree"] = 1
        res["first_bad"] = dict(where(e, g), cfg=cfg)
    return res


def run_l3(nsims=None, name="runc", timeout=600, **force):
    t0 = time.time()
    if nsims is None:
        nsims = 160 if TIER == "quick" else 800
    cfgs = dayc.matrix_configs(nsims, name, **force)
    res = sim.pmap(worker, [{"cfg": c, "index": i} for i, c in enumerate(cfgs)], timeout=timeout)
    tot = collections.Counter(); errs = collections.Counter(); meth = collections.Counter(); herr = []; bad = []; prem = collections.Counter()
    for c, r in zip(cfgs, res):
        if r.get("hang") or r.get("harness_error"):
            herr.append(r.get("harness_error", "hang")[-600:]); continue
        for k, v in r.items():
            if isinstance(v, int) and not isinstance(v, bool) and k != "method":
                tot[k] += v
        meth[r.get("method")] += 1
        if r.get("error"):
            errs["%s@%s" % (r["error"]["type"], r["error"]["origin"])] += 1
        if r.get("first_bad"):
            bad.append(r["first_bad"])
        for f in r.get("premise_failures", []):
            prem[f] += 1
    runs = tot["agree"] + tot["disagree"]
    cov = {"simulations": len(cfgs), "whole_runs_compared": runs, "by_irrigation_method": dict(meth), "implementation_exceptions": dict(errs),
           "harness_errors": herr[:3],
           "premises_of_the_whole_run_theorems_that_fail_on_some_configuration": dict(prem), **{k: tot[k] for k in tot}}
    return {"suite": name, "cases": runs, "distinct": runs, "agree": tot["agree"], "disagree": tot["disagree"] + len(herr),
            "by_function": {"run_till_c": runs}, "coverage": cov, "error": ("harness errors: %d" % len(herr)) if herr else None,
            "total_s": round(time.time() - t0, 1), "mismatches": bad[:10], "samples": [{"cfg": cfgs[0]}] if cfgs else []}


FORCE_BY_PID = {"C19": {"gw": True}, "C02": {"inert": True}, "C20": {"inert": True}}      # whole runs for a property about one feature are drawn with that feature on


def run_custom(n, pid):
    return run_l3(nsims=n, name="runc-" + pid, **FORCE_BY_PID.get(pid, {}))


if __name__ == "__main__":
    import json, sys
    n = int(sys.argv[1]) if len(sys.argv) > 1 else 16
    r = run_l3(n)
    print(json.dumps({k: v for k, v in r.items() if k not in ("samples",)}, indent=1, default=str)[:6000])
