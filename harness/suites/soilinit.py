"""L1 suite for the soil-initialisation unit (Init/SoilBuild.v).

Implementation side: real `Soil(...)`, `add_layer`, `add_layer_from_texture`, `fill_nan` and the real
`AquaCropModel(...)._initialize()`; every array of `_param_struct.Soil.Profile`, `Soil.zSoil`,
`_init_cond.th` and both `th_fc_Adj` are compared bit for bit with `soil_init_in` of the extracted model.
Function-level streams: Saxton-Rawls (`texture`), `tau`, `build` (Soil object + fill_nan), pandas
`Series.sum()` (`pwsum`), `groupby().mean()` (`kmean`) and `np.interp` (`interp`).

The arguments the built-in soil ladder passes to `add_layer` are observed by wrapping `Soil.add_layer`
(class attribute rebinding in the harness process only)."""
import collections, signal
import numpy as np
import pandas as pd
from common import *
from l1 import Case

install_libm_proxy()
import aquacrop.entities.soil as _soilmod
if not isinstance(_soilmod.np, NpProxy):
    _soilmod.np = NpProxy(np)          # np.log / np.power of the pedotransfer go to libm like everywhere else
import sim
from aquacrop.core import AquaCropModel
from aquacrop.entities.soil import Soil
from aquacrop.entities.crop import Crop
from aquacrop.entities.inititalWaterContent import InitialWaterContent
from aquacrop.entities.crops.crop_params import crop_params

FUEL = 1000
BUILTIN = list(sim.SOILS)
# calendar-day crops (cheap to initialise on a one-month window); other rooting depths through Crop(..., Zmax=)
CD_CROPS = [k for k, v in sorted(crop_params.items()) if v.get("CalendarType") == 1 and k not in ("Cassava", "SugarCane")]
ALL_ZMAX = sorted(set(float(v["Zmax"]) for v in crop_params.values()))      # includes Alfalfa's 3.0
TUNIS_DZ = [0.1] * 6 + [0.15] * 5 + [0.2]
COV = collections.Counter()          # branch coverage of the last gen() call


# ----------------------------------------------------------------------------------------------
# tokens
def layer_tokens(L):
    return L[0] + " " + " ".join(hx(x) for x in L[1:])


def val_tokens(v):
    return v if isinstance(v, str) and v in ("SAT", "FC", "WP") else ("OTHER" if isinstance(v, str) else "V " + hx(v))


def rows_expect(dz, dzsum, zbot, ztop, zmid, layer, dry, wp, fc, s, ks, tau, pen):
    out = []
    for arr in (dz, dzsum, zbot, ztop, zmid):
        out += tl(arr).split()
    out += [str(len(layer))] + [str(int(x)) for x in layer]
    for arr in (dry, wp, fc, s, ks, tau, pen):
        out += tl(arr).split()
    return out


# ----------------------------------------------------------------------------------------------
# workers (module level: run through sim.pmap)
def make_soil_recorded(spec):
    """build the real Soil of a spec; returns (soil, model layer tokens, dz as the Soil holds it)"""
    rec = []
    orig = Soil.add_layer

    def spy(self, *a):
        rec.append(a)
        return orig(self, *a)

    Soil.add_layer = spy
    try:
        soil = Soil(spec["type"], dz=list(spec["dz"]))
        builtin = [["H"] + [float(x) for x in a] for a in rec]
        for L in spec.get("layers", []):
            if L[0] == "H":
                soil.add_layer(*L[1:])
            else:
                soil.add_layer_from_texture(*L[1:])
    finally:
        Soil.add_layer = orig
    layers = builtin + [list(L) for L in spec.get("layers", [])]
    dz = [float(x) for x in (TUNIS_DZ if spec["type"] == "ac_TunisLocal" else spec["dz"])]
    return soil, layers, dz


def init_line(spec, layers, dz, zmax):
    w = spec["iwc"]
    return "%d %s %s %d %s %s %s %s %d %s" % (
        FUEL, hx(zmax), tl(dz), len(layers), " ".join(layer_tokens(L) for L in layers), w["wc_type"], w["method"],
        tl(w["depth_layer"]), len(w["value"]), " ".join(val_tokens(v) for v in w["value"]))


def run_init(spec):
    crop = Crop(spec["crop"], planting_date="05/01", **({"Zmax": spec["zmax"]} if spec.get("zmax") is not None else {}))
    zmax = float(crop.Zmax)
    line = None
    try:
        try:
            soil, layers, dz = make_soil_recorded(spec)
        except sim.Hang:
            raise
        except Exception as e:
            # the Soil could not even be built (texture outside the pedotransfer's domain): model sees the user's layers
            layers = [list(L) for L in spec.get("layers", [])]
            dz = [float(x) for x in spec["dz"]]
            return {"line": init_line(spec, layers, dz, zmax), "expect": ["N"], "err": type(e).__name__ + ": " + str(e)[:80]}
        line = init_line(spec, layers, dz, zmax)
        w = spec["iwc"]
        m = AquaCropModel("1980/05/01", "1980/06/01", sim.base_weather("tunis_climate.txt"), soil, crop,
                          InitialWaterContent(w["wc_type"], w["method"], list(w["depth_layer"]), list(w["value"])))
        m._initialize()
    except sim.Hang:
        return {"line": line, "expect": ["N"], "err": "hang"}
    except Exception as e:
        return {"line": line, "expect": ["N"], "err": type(e).__name__ + ": " + str(e)[:80]}
    P = m._param_struct.Soil.Profile
    exp = ["S"] + rows_expect(P.dz, P.dzsum, P.zBot, P.z_top, P.zMid, P.Layer, P.th_dry, P.th_wp, P.th_fc, P.th_s,
                              P.Ksat, P.tau, P.Penetrability)
    exp += tl(P.aCR).split() + tl(P.bCR).split() + [hx(m._param_struct.Soil.zSoil)]
    exp += tl(m._init_cond.th).split() + tl(m._init_cond.th_fc_Adj).split() + tl(P.th_fc_Adj).split()
    cov = {"deepened": bool(list(P.dz) != [float(np.round(x, 2)) for x in dz]),
           "nlayer": int(max(P.Layer)), "ncomp": len(P.dz),
           "th_zero": bool(np.any(np.asarray(m._init_cond.th) == 0.0)),
           "dz_rounded": bool([float(np.round(x, 2)) for x in dz] != dz),
           "stale_zmid": bool(np.any(np.abs(P.zMid - (P.dzsum - P.dz / 2)) > 1e-9)),
           "hyd_off": bool(np.any(m._param_struct.Soil.Hydrology.th_fc.values !=
                                  np.array([P.th_fc[list(P.Layer).index(L)] for L in m._param_struct.Soil.Hydrology.index])))}
    return {"line": line, "expect": exp, "err": None, "cov": cov}


def run_build(spec):
    line = None
    try:
        try:
            soil, layers, dz = make_soil_recorded(spec)
        except sim.Hang:
            raise
        except Exception as e:
            layers = [list(L) for L in spec.get("layers", [])]
            dz = [float(x) for x in spec["dz"]]
            line = "%s %d %s" % (tl(dz), len(layers), " ".join(layer_tokens(L) for L in layers))
            return {"line": line, "expect": ["N"], "err": type(e).__name__}
        line = "%s %d %s" % (tl(dz), len(layers), " ".join(layer_tokens(L) for L in layers))
        soil.fill_nan()
        p = soil.profile
        exp = ["S"] + rows_expect(p.dz.values, p.dzsum.values, p.zBot.values, p.z_top.values, p.zMid.values, p.Layer.values,
                                  p.th_dry.values, p.th_wp.values, p.th_fc.values, p.th_s.values, p.Ksat.values, p.tau.values,
                                  p.penetrability.values) + [hx(soil.zSoil)]
        return {"line": line, "expect": exp, "err": None, "nlayer": int(p.Layer.max())}
    except Exception as e:
        return {"line": line, "expect": ["N"], "err": type(e).__name__}


# ----------------------------------------------------------------------------------------------
# generators of specs
GRID = [0.05, 0.1, 0.15, 0.2, 0.25, 0.3]


def gen_dz(rng):
    k = rng.random()
    if k < 0.25:
        return [0.1] * 12
    if k < 0.45:
        return [rng.choice(GRID)] * rng.randint(3, 20)
    if k < 0.9:
        return [rng.choice(GRID) for _ in range(rng.randint(2, 20))]
    # not multiples of a centimetre: fill_nan rounds them
    return [rng.choice(GRID + [0.125, 0.333, 0.075, 0.12, 0.07, 0.245]) for _ in range(rng.randint(2, 16))]


def capacity(dz):
    """depth the deepening loop can reach (every compartment < 0.25 grows by 0.1 until it is >= 0.25)"""
    tot = 0.0
    for d in dz:
        d = round(d, 2)
        while d < 0.25:
            d = round(d + 0.1, 2)
        tot += d
    return tot


def predict_hang(dz, zmax):
    """True when the thin compartments cannot reach Zmax + 0.1: before /repo commit 1d078f4 the loop then never ended
    (finding 9); now the bottom compartment keeps growing (the `else` branch of the for loop)"""
    return capacity(dz) < zmax + 0.1 - 1e-9


def gen_hyd_layer(rng, thick, degenerate=False):
    wp = round(rng.uniform(0.02, 0.35), rng.choice([2, 3]))
    fc = round(wp + rng.uniform(0.02, 0.25), rng.choice([2, 3]))
    s = round(fc + rng.uniform(0.01, 0.2), rng.choice([2, 3]))
    if degenerate:
        s = fc
    k = rng.random()
    ks = float(rng.randint(1, 3000)) if k < 0.5 else (round(rng.uniform(0.1, 3500), 1) if k < 0.9 else
                                                     rng.choice([0.0, 0.5, 1085.0, 1086.0, 1090.0, 5000.0]))
    return ["H", float(thick), wp, fc, s, ks, float(rng.choice([100, 100, 90, 50, 0]))]


def gen_texture(rng, bad=False):
    """(sand %, clay %, om %) in the calibrated triangle; bad -> the two corners where the pedotransfer breaks"""
    if bad:
        if rng.random() < 0.5:
            return float(rng.randint(90, 100)), float(rng.choice([0, 0, 1])), rng.choice([0.0, 0.1, 0.3])
        return float(rng.randint(39, 41)), 60.0, rng.choice([6.0, 7.0, 8.0])
    while True:
        clay = rng.choice([float(rng.randint(0, 60)), round(rng.uniform(0, 60), 1)])
        sand = rng.choice([float(rng.randint(0, 100)), round(rng.uniform(0, 100), 1)])
        om = rng.choice([0.0, 0.5, 1.0, 2.0, 2.5, 4.0, round(rng.uniform(0, 8), 2)])
        if sand + clay <= 100 and not (sand >= 55 and clay <= 3 and om <= 1.2) and not (clay >= 57 and om >= 4.5):
            return sand, clay, om


def gen_layers(rng, dz, tex_share=0.35, bad_tex=False):
    tot = sum(dz)
    nl = rng.choice([1, 1, 2, 2, 3])
    cuts = sorted(round(rng.uniform(0.05, tot), rng.choice([1, 2])) for _ in range(nl - 1))
    k = rng.random()
    end = tot if k < 0.6 else (tot + 1.0 if k < 0.8 else (round(tot - rng.choice([0.05, 0.1, 0.3]), 2)))
    layers, prev = [], 0.0
    for c in cuts + [end]:
        th = round(c - prev, 2) if rng.random() < 0.8 else c - prev
        if rng.random() < tex_share:
            sa, cl, om = gen_texture(rng, bad=bad_tex and rng.random() < 0.7)
            layers.append(["X", float(th), sa, cl, om, float(rng.choice([100, 80]))])
        else:
            layers.append(gen_hyd_layer(rng, th))
        prev = c
    return layers


def gen_iwc(rng, nl, zsoil, malformed=False):
    ty = rng.choice(["Prop", "Pct", "Num"])
    me = rng.choice(["Layer", "Depth"])
    if me == "Layer":
        k = rng.random()
        if k < 0.55:
            dl = list(range(1, nl + 1))
        elif k < 0.75:
            dl = list(range(1, rng.randint(1, nl) + 1))       # fewer entries than layers: the rest keeps th = 0
        else:
            dl = [rng.randint(1, nl) for _ in range(rng.randint(1, 4))]   # any order, repetitions (last wins)
        if malformed:
            dl = dl + [nl + rng.randint(1, 2)] if rng.random() < 0.6 else [x + 0.5 for x in dl]
    else:
        k = rng.randint(1, 6)
        dl = sorted(round(rng.uniform(0, zsoil * 1.25), rng.choice([1, 2, 2])) for _ in range(k))
        if rng.random() < 0.25:
            dl[0] = 0.0
        if rng.random() < 0.15 and k > 1:
            dl[-1] = dl[-2]                                   # repeated depth
        if rng.random() < 0.15:
            dl[-1] = round(zsoil, 2)
    n = len(dl)
    if ty == "Prop":
        v = [rng.choice(["SAT", "FC", "WP"]) for _ in range(n)]
        if rng.random() < 0.03:
            v[rng.randrange(n)] = "fc"                        # unknown name: the value stays 0
    elif ty == "Pct":
        v = [float(rng.choice([0, 25, 50, 75, 100, rng.randint(0, 100), round(rng.uniform(0, 100), 1)])) for _ in range(n)]
    else:
        v = [round(rng.uniform(0.03, 0.55), 3) for _ in range(n)]
    dl = [float(x) for x in dl]
    if malformed and me == "Depth":
        if rng.random() < 0.5 and n > 1:
            v = v[:-1]                                         # np.interp: lengths differ
        else:
            dl = dl[:-1] if n > 1 else []                      # IndexError
    return {"wc_type": ty, "method": me, "depth_layer": dl, "value": v}


def pick_crop(rng, dz, want_ok=True):
    cap = capacity(dz)
    for _ in range(30):
        if rng.random() < 0.45:
            crop = rng.choice(CD_CROPS); zov = None; zmax = float(crop_params[crop]["Zmax"])
        else:
            crop = rng.choice(["Maize", "Wheat", "Potato", "Tomato"])
            zov = rng.choice(ALL_ZMAX + [0.85, 2.75, 1.15, 0.3, 1.25])
            zmax = zov
        if predict_hang(dz, zmax) != want_ok:
            return crop, zov, zmax
    return ("PaddyRice", 0.3, 0.3) if want_ok else ("Maize", 3.0, 3.0)


def gen_init_spec(rng, kind):
    """kind: 'valid' | 'hang' (= bottom compartment must grow; valid since 1d078f4) | 'badlayer' | 'badiwc' | 'badtex'"""
    if rng.random() < 0.4 and kind in ("valid", "hang", "badiwc"):
        st = rng.choice(BUILTIN)
        dz = gen_dz(rng) if rng.random() < 0.6 else [0.1] * 12
        layers = []
        eff_dz = TUNIS_DZ if st == "ac_TunisLocal" else dz
        nl = 2 if (st == "Paddy" and sum(eff_dz) > 0.5 + 1e-9 and eff_dz[0] <= 0.5) or st == "ac_TunisLocal" else 1
    else:
        st = "custom"
        dz = gen_dz(rng)
        eff_dz = dz
        layers = gen_layers(rng, dz, bad_tex=(kind == "badtex"))
        nl = len(layers)
        if kind == "badlayer":
            k = rng.random()
            if k < 0.4:
                layers = []                                    # never any add_layer
            elif k < 0.8:
                layers = [gen_hyd_layer(rng, round(rng.uniform(0.0, min(dz[0], 0.04)), 3))]   # thinner than compartment 1
            else:
                layers = [gen_hyd_layer(rng, sum(dz))]; layers[0][5] = -5.0                      # Ksat < 0: complex tau
    if kind == "hang":
        if rng.random() < 0.5:
            dz = [rng.choice([0.25, 0.3, 0.3])] * rng.randint(1, 6) if rng.random() < 0.5 else [0.1] * rng.randint(1, 3)
            if st == "custom":
                layers = [gen_hyd_layer(rng, sum(dz))]
            eff_dz = TUNIS_DZ if st == "ac_TunisLocal" else dz
        crop, zov, zmax = pick_crop(rng, eff_dz, want_ok=False)
    else:
        crop, zov, zmax = pick_crop(rng, eff_dz, want_ok=True)
    zs = max(sum(eff_dz), zmax + 0.1, 0.3)
    iwc = gen_iwc(rng, max(1, min(nl, 3)), zs, malformed=(kind == "badiwc"))
    return {"type": st, "dz": dz, "layers": layers, "crop": crop, "zmax": zov, "iwc": iwc, "kind": kind,
            "hang": predict_hang(eff_dz, zmax)}


def gen_build_spec(rng):
    if rng.random() < 0.3:
        return {"type": rng.choice(BUILTIN), "dz": gen_dz(rng), "layers": []}
    dz = gen_dz(rng)
    return {"type": "custom", "dz": dz, "layers": gen_layers(rng, dz, tex_share=0.3)}


# ----------------------------------------------------------------------------------------------
# function-level streams
_dummy = None


def gen_texture_cases(rng, n):
    global _dummy
    if _dummy is None:
        _dummy = Soil("custom", dz=[0.1])
    for i in range(n):
        k = rng.random()
        bad = k < 0.03
        if k < 0.75:
            sa, cl, om = gen_texture(rng, bad=bad)
        else:   # whole calibrated triangle, including the failing corners (classified by what Python does)
            cl = round(rng.uniform(0, 60), rng.choice([0, 1, 3])); sa = round(rng.uniform(0, 100 - cl), rng.choice([0, 1, 3]))
            om = round(rng.uniform(0, 8), rng.choice([0, 1, 2]))
        try:
            r = _dummy.calculate_soil_hydraulic_properties(sa / 100, cl / 100, om)
            exp = ["S"] + [hx(x) for x in r]
            COV["texture ok"] += 1
        except (ValueError, OverflowError) as e:
            exp = ["N"]
            COV["texture raises"] += 1
        yield Case("texture", "%s %s %s" % (hx(sa), hx(cl), hx(om)), exp, {"sand": sa, "clay": cl, "om": om},
                   "malformed" if exp == ["N"] else "valid")


def gen_tau_cases(rng, n):
    for i in range(n):
        k = rng.random()
        ks = float(rng.randint(0, 4000)) if k < 0.4 else (round(rng.uniform(0, 4000), 1) if k < 0.8 else rng.uniform(0, 1500))
        s = Soil("custom", dz=[0.1])
        s.add_layer(0.1, 0.1, 0.2, 0.3, ks, 100)
        t = float(s.profile.tau.iloc[0])
        COV["tau clamp1" if t == 1.0 else ("tau 0" if t == 0.0 else "tau mid")] += 1
        yield Case("tau", hx(ks), [hx(t)], {"ksat": ks})


def gen_pwsum_cases(rng, n):
    for i in range(n):
        m = rng.choice([rng.randint(1, 7), rng.randint(8, 40), rng.randint(8, 128), rng.randint(129, 400)])
        xs = [rng.choice(GRID) if rng.random() < 0.5 else rng.uniform(0, 0.5) for _ in range(m)]
        COV["pwsum n<8" if m < 8 else ("pwsum n<=128" if m <= 128 else "pwsum n>128")] += 1
        yield Case("pwsum", tl(xs), [hx(pd.Series(xs).sum())], {"n": m})


def gen_kmean_cases(rng, n):
    for i in range(n):
        m = rng.randint(1, 25)
        if rng.random() < 0.6:
            xs = [round(rng.uniform(0.01, 0.6), rng.choice([2, 3]))] * m
        else:
            xs = [rng.uniform(0, 3000) for _ in range(m)]
        df = pd.DataFrame({"Layer": [1] * m, "x": xs})
        r = float(df.groupby("Layer").mean().x.iloc[0])
        COV["kmean exact" if r == xs[0] else "kmean off"] += 1
        yield Case("kmean", tl(xs), [hx(r)], {"n": m})


def gen_interp_cases(rng, n):
    for i in range(n):
        m = rng.randint(1, 9)
        xs = sorted(round(rng.uniform(0, 3), rng.choice([1, 2])) for _ in range(m))
        ys = [round(rng.uniform(0, 0.6), 3) for _ in range(m)]
        x = rng.choice(xs) if rng.random() < 0.25 else rng.uniform(-0.2, 3.3)
        r = float(np.interp(np.array([x] * rng.choice([1, 12])), np.array(xs), np.array(ys))[0])
        COV["interp n<=4" if m <= 4 else "interp n>4"] += 1
        yield Case("interp", "%s %s %s" % (hx(x), tl(xs), tl(ys)), ["S", hx(r)], {"x": x, "xs": xs, "ys": ys})


# ----------------------------------------------------------------------------------------------
def gen(rng, n):
    """n texture cases + n/5 initialisations + n/5 Soil builds + n/10 each of tau, pwsum, kmean, interp"""
    COV.clear()
    n_init = max(n // 5, 40)
    kinds = []
    for i in range(n_init):
        k = rng.random()
        kinds.append("valid" if k < 0.86 else ("hang" if k < 0.93 else ("badlayer" if k < 0.95 else
                     ("badiwc" if k < 0.98 else "badtex"))))
    specs = [gen_init_spec(rng, k) for k in kinds]
    res = dict()
    for s, r in zip(specs, sim.pmap(run_init, specs, timeout=120)):
        res[id(s)] = r
    for s in specs:
        r = res[id(s)]
        if "line" not in r:
            raise RuntimeError("harness error in run_init: %r" % (r,))
        kind = "valid" if s["kind"] in ("valid", "hang") else "malformed"
        COV["init " + ("bottom-grow (ex-hang)" if s["kind"] == "hang" else s["kind"])] += 1
        if s["hang"]:
            COV["init else-branch of the deepening loop taken"] += 1
        COV["init %s/%s" % (s["iwc"]["wc_type"], s["iwc"]["method"])] += 1
        COV["init soil " + ("builtin" if s["type"] != "custom" else "custom")] += 1
        if any(L[0] == "X" for L in s["layers"]):
            COV["init texture layer"] += 1
        if r["err"]:
            COV["init raises: " + r["err"].split(":")[0]] += 1
        else:
            for k, v in r["cov"].items():
                if k in ("nlayer",):
                    COV["init nlayer=%d" % v] += 1
                elif k != "ncomp" and v:
                    COV["init " + k] += 1
        yield Case("soil_init", r["line"], r["expect"], {k: s[k] for k in ("type", "dz", "layers", "crop", "zmax", "iwc")}
                   | {"err": r["err"]}, kind)
    bspecs = [gen_build_spec(rng) for _ in range(max(n // 5, 20))]
    for s, r in zip(bspecs, sim.pmap(run_build, bspecs, timeout=60)):
        if "line" not in r:
            raise RuntimeError("harness error in run_build: %r" % (r,))
        COV["build " + ("raises" if r["err"] else "ok nlayer=%d" % r["nlayer"])] += 1
        yield Case("build", r["line"], r["expect"], s | {"err": r["err"]}, "valid")
    yield from gen_texture_cases(rng, n)
    yield from gen_tau_cases(rng, max(n // 10, 10))
    yield from gen_pwsum_cases(rng, max(n // 10, 10))
    yield from gen_kmean_cases(rng, max(n // 10, 10))
    yield from gen_interp_cases(rng, max(n // 10, 10))
