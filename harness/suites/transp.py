"""L1: transpiration (aquacrop/solution/transpiration.py) against Water/Transpiration.v.

Three streams:
  * synthetic — SimpleNamespace state / crop / CO2 objects carrying exactly the attributes the function reads,
    random profiles from suites.profiles, crop constants from the real catalogue (70 %) or random;
  * genuine  — `SoilProfile`, `CropStructNT`-like crop and `InitialCondition` objects obtained from a real
    `AquaCropModel._initialize()`, state fields then varied at random;
  * malformed — inputs on which the Python raises (TrColdStress outside {0,1}, ETadj != 1 with extraction,
    roots below the profile, short state arrays).
STATS counts the branches taken by the generated cases (filled while generating)."""
import copy, types, collections
import numpy as np
from common import *
from l1 import Case
from suites.profiles import *

install_libm_proxy()
from aquacrop.solution.transpiration import transpiration
from aquacrop.entities.crop import Crop
from aquacrop.entities.crops.crop_params import crop_params

CROPS = sorted(crop_params.keys())
STATS = collections.Counter()
_crop_cache = {}
ERRS = (UnboundLocalError, IndexError, ZeroDivisionError, AssertionError)

CROP_F = ["MaxCanopyCD", "Kcb", "fage", "a_Tr", "TrColdStress", "GDD_up", "GDD_lo", "LagAer", "Zmin", "Aer"]
STATE_F = ["dap", "delayed_cds", "age_days_ns", "age_days", "ccx_w_ns", "ccx_w", "canopy_cover_adj_ns", "canopy_cover_adj",
           "canopy_cover_ns", "canopy_cover", "cc_prev", "surface_storage", "day_submerged", "aer_days_comp", "z_root", "th",
           "t_early_sen", "aer_days", "r_cor", "irr_net_cum", "depletion", "taw", "tr_ratio", "t_pot"]
OUT_F = ["age_days_ns", "age_days", "canopy_cover", "surface_storage", "day_submerged", "aer_days_comp", "th", "aer_days",
         "irr_net_cum", "depletion", "taw", "tr_ratio", "t_pot"]


# ---- branch statistics by line tracing of the real function (statistics only; results are unaffected) ----
import inspect, sys
MARKS = [  # (stripped source line, occurrence index, name)
    ("NewCond.age_days = DAPadj - Crop.MaxCanopyCD", 0, "b_age_counter_updated"),
    ("Kcb = Crop.Kcb - ((NewCond.age_days - 5) * (Crop.fage / 100)) * NewCond.ccx_w", 0, "b_kcb_ageing"),
    ("Kcb = Kcb * (1 - 0.05 * ((CO2CurrentConc - CO2RefConc) / (550 - CO2RefConc)))", 0, "b_kcb_co2"),
    ("TrPot0 = TrPot0 * ((NewCond.canopy_cover / NewCond.ccx_w) ** Crop.a_Tr)", 0, "b_dying_canopy_pow"),
    ("KsCold = 0", 0, "b_cold_full"),
    ("GDDrel = (gdd - Crop.GDD_lo) / (Crop.GDD_up - Crop.GDD_lo)", 0, "b_cold_partial"),
    ("NewCond.day_submerged = NewCond.day_submerged + 1", 0, "b_ponded"),
    ("TrAct0 = fSub * TrPot0", 0, "b_ponded_surface_transpires"),
    ("TrPot = (fSub * TrPot0) - TrAct0", 0, "b_ponded_rest_from_soil"),
    ("water_root_depletion = water_root_depletion.Zt", 0, "b_topsoil_wetter"),
    ("TrPot = TrPot * Ks", 0, "b_ks_applied"),
    ("RootFact[ii] = 1 - ((Soil_Profile.dzsum[ii] - rootdepth) / Soil_Profile.dz[ii])", 0, "b_partial_compartment"),
    ("SxCompBot = Crop.SxBot * NewCond.r_cor", 0, "b_sx_below_rootdepth"),
    ("comp = comp + 1", 0, "b_loop_iteration"),
    ("Wrel = (prof.th_fc[comp] - NewCond.th[comp]) / (prof.th_fc[comp] - prof.th_wp[comp])", 0, "b_comp_between_wp_and_crit"),
    ("(np.exp(pRel * Crop.fshape_w[1]) - 1) / (np.exp(Crop.fshape_w[1]) - 1)", 0, "b_comp_ks_curve"),
    ("KsComp = 0", 2, "b_comp_at_or_below_wp"),
    ("AerComp = 0", 0, "b_comp_fully_submerged"),
    ("fAer = 0", 0, "b_comp_aer_lag_reached"),
    ("fAer = 1", 0, "b_comp_aer_within_lag"),
    ("NewCond.aer_days_comp[comp] = 0", 0, "b_comp_aerated"),
    ("Sink = AerComp * SxComp[comp] * RootFact[comp]", 0, "b_sink_netirr_mode"),
    ("Sink = ThToExtract", 0, "b_sink_limited_by_demand"),
    ("Sink = InitCond_th[comp] - prof.th_dry[comp]", 0, "b_sink_limited_by_air_dry"),
    ("Sink = 0", 0, "b_sink_clamped_zero"),
    ("thCrit = thRZ.WP + ((IrrMngt_NetIrrSMT / 100) * (thRZ.FC - thRZ.WP))", 0, "b_netirr_evaluated"),
    ("prelayer = 0", 0, "b_netirr_triggered"),
    ("prelayer = layeri", 0, "b_netirr_new_layer"),
    ("NewCond.canopy_cover = NewCond.cc_prev", 0, "b_cc_reset_to_prev"),
    ("NewCond.tr_ratio = TrAct / TrPot0", 0, "b_tr_ratio_partial"),
]
_code = transpiration.__code__
_line_name = {}


def _index_marks():
    src, first = inspect.getsourcelines(transpiration)
    stripped = [l.strip() for l in src]
    for text, occ, name in MARKS:
        hits = [i for i, l in enumerate(stripped) if l == text]
        if len(hits) > occ:
            _line_name[first + hits[occ]] = name


_index_marks()


def traced_call(*args):
    """call transpiration, returning (result, Counter of marked lines executed)"""
    seen = collections.Counter()

    def local(frame, event, arg):
        if event == "line":
            nm = _line_name.get(frame.f_lineno)
            if nm: seen[nm] += 1
        return local

    def glob(frame, event, arg):
        return local if frame.f_code is _code else None
    sys.settrace(glob)
    try:
        return transpiration(*args), seen
    finally:
        sys.settrace(None)


def crop_obj(name):
    if name not in _crop_cache:
        _crop_cache[name] = Crop(name, planting_date="05/01")
    return _crop_cache[name]


def grid(rng, lo, hi, step):
    if rng.random() < 0.6:
        return lo + rng.randint(0, int(round((hi - lo) / step))) * step
    return rng.uniform(lo, hi)


def maybe_np(rng, x):
    """state scalars are Python floats, ints or np.float64 in a real run; mix them"""
    r = rng.random()
    if r < 0.3:
        return np.float64(x)
    return x


def gen_crop(rng):
    c = crop_obj(rng.choice(CROPS))
    k = types.SimpleNamespace()
    if rng.random() < 0.7:
        for f in CROP_F[1:]:
            setattr(k, f, getattr(c, f))
        k.p_up = np.array(c.p_up, dtype=float); k.p_lo = np.array(c.p_lo, dtype=float)
        k.fshape_w = np.array(c.fshape_w, dtype=float)
        k.ETadj = c.ETadj; k.beta = c.beta; k.SxTop = c.SxTop; k.SxBot = c.SxBot
    else:
        k.Kcb = round(rng.uniform(0.3, 1.3), 2); k.fage = rng.choice([0.15, 0.3, 0.05, 1.0, 0.0])
        k.a_Tr = rng.choice([1, 1, 2, 0.5, 1.5]); k.TrColdStress = rng.choice([0, 1, 1])
        k.GDD_lo = rng.choice([0, 0, 2.0]); k.GDD_up = k.GDD_lo + rng.choice([8.0, 10.0, 12.0, 14.0, 0.5])
        k.LagAer = rng.choice([3, 3, 3, 5, 2, 1]); k.Zmin = rng.choice([0.2, 0.3, 0.3, 0.1, 0.45])
        k.Aer = rng.choice([5, 5.0, 2, 15, 0.5])
        pu = [round(rng.uniform(0, 0.9), 2) for _ in range(4)]
        pl = [round(min(1.0, p + rng.uniform(0.01, 0.6)), 2) for p in pu]
        k.p_up = np.array(pu); k.p_lo = np.array(pl)
        k.fshape_w = np.array([rng.choice([-6, -3, -1.5, 0.5, 1, 2.5, 3, 6, rng.uniform(-6, 6) or 1.0]) for _ in range(3)] + [1.0])
        k.ETadj = rng.choice([1, 1.0]); k.beta = rng.choice([0, 12, 25, 50])
        k.SxTop = rng.choice([0.048, 0.054, 0.02, 0.1, 0.0]); k.SxBot = rng.choice([0.012, 0.006, 0.02, 0.0, 0.1])
    k.MaxCanopyCD = rng.choice([20, 60, 119, 150])
    return k


def fit_zmin(k, p):
    """keep the minimum root depth inside the profile (otherwise root_zone_water raises IndexError)"""
    tot = float(p.dzsum[-1])
    if float(k.Zmin) > tot:
        k.Zmin = tot


def gen_state(rng, p, k, ncomp):
    s = types.SimpleNamespace()
    tot = float(p.dzsum[-1])
    s.dap = rng.randint(1, 220)
    s.delayed_cds = rng.choice([0, 0, 0, 3, 40])
    s.age_days_ns = rng.choice([0, 0, 3, 5, 6, 30, 80])
    s.age_days = rng.choice([0, 0, 3, 5, 6, 30, 80])
    ccx = rng.choice([0, 0.0005, 0.001, 0.5, 0.8, 0.9, round(rng.uniform(0.002, 0.99), 3), round(rng.uniform(0.3, 0.99), 2), 0.96, 0.96,
                      rng.uniform(0.01, 0.99), rng.uniform(0.01, 0.99)])
    s.ccx_w = maybe_np(rng, ccx)
    s.ccx_w_ns = maybe_np(rng, rng.choice([ccx, ccx, min(0.99, ccx * 1.1), 0]))
    m = rng.random()
    cc = ccx if m < 0.3 else (ccx * rng.uniform(0, 1) if m < 0.85 else (0.0009 if m < 0.9 else min(1.0, ccx * 1.05)))
    s.canopy_cover = maybe_np(rng, cc)
    s.canopy_cover_ns = maybe_np(rng, rng.choice([cc, cc, float(s.ccx_w_ns) * rng.uniform(0, 1), float(s.ccx_w_ns)]))
    adj = lambda c: 1.72 * c - c * c + 0.3 * c * c * c
    s.canopy_cover_adj = maybe_np(rng, adj(float(s.canopy_cover)))
    s.canopy_cover_adj_ns = maybe_np(rng, adj(float(s.canopy_cover_ns)))
    s.cc_prev = maybe_np(rng, rng.choice([cc, cc * 0.9, max(0.0, cc - 0.02), cc - 0.005, 0]))
    lag = k.LagAer
    s.surface_storage = rng.choice([0, 0, 0, 0.0, 0.0, round(rng.uniform(0.01, 3), 2), round(rng.uniform(0.5, 80), 1), rng.uniform(0, 10)])
    s.day_submerged = rng.choice([0, 0, 0, 0, 0, 0, 1, 1, 2, lag - 1, lag - 1, lag, lag + 1])
    if s.day_submerged < 0: s.day_submerged = 0
    s.aer_days_comp = np.array([float(rng.choice([0, 0, 1, 2, lag - 1 if lag >= 1 else 0, lag])) for _ in range(ncomp)])
    zmin = float(k.Zmin)
    s.z_root = rng.choice([0.0, zmin, zmin, round(rng.uniform(0.05, tot), rng.choice([2, 3, 6])), rng.uniform(0.05, tot), tot,
                           round(rng.uniform(0.05, tot * 1.02), 2)])
    s.th = gen_th(rng, p)
    u = rng.random()
    if u < 0.25:      # moderately dry root zone: between wilting point and field capacity
        s.th = np.array([rng.uniform(p.th_wp[i], p.th_fc[i]) for i in range(ncomp)])
    elif u < 0.33:    # out-of-bounds start: a compartment below air dry (exercises the `Sink < 0` clamp)
        i = rng.randrange(ncomp); s.th[i] = p.th_dry[i] - rng.choice([0.01, 0.001])
    s.t_early_sen = rng.choice([0, 0, 0, 1, 5])
    s.aer_days = rng.choice([0, 0, 1, 2, lag, lag - 1 if lag >= 1 else 0])
    s.r_cor = rng.choice([1, 1, 1, 1.5, 2.0, rng.uniform(1, 3)])
    s.irr_net_cum = maybe_np(rng, rng.choice([0, 0, round(rng.uniform(0, 300), 3)]))
    s.depletion = np.float64(rng.uniform(0, 100)); s.taw = np.float64(rng.uniform(10, 200))
    s.tr_ratio = rng.choice([1, rng.random()]); s.t_pot = rng.choice([0, rng.uniform(0, 9)])
    return s


_gen_cache = []


def genuine_objects():
    """(profile, crop, init_cond, co2) of really initialised models"""
    if _gen_cache:
        return _gen_cache
    from sim import base_weather
    from aquacrop.core import AquaCropModel
    from aquacrop.entities.soil import Soil
    from aquacrop.entities.inititalWaterContent import InitialWaterContent
    from aquacrop.entities.irrigationManagement import IrrigationManagement
    for soil, crop, pd_, meth in [("SandyLoam", "Wheat", "10/01", 4), ("Clay", "Maize", "05/01", 0), ("Paddy", "localpaddy", "05/15", 1),
                                  ("Loam", "Tomato", "04/15", 4), ("Sand", "Cotton", "05/01", 2)]:
        m = AquaCropModel("1982/01/01", "1983/12/31", base_weather("tunis_climate.txt"), Soil(soil), Crop(crop, planting_date=pd_),
                          InitialWaterContent(value=["FC"]), irrigation_management=IrrigationManagement(irrigation_method=meth))
        m._initialize()
        ps = m._param_struct
        _gen_cache.append((ps.Soil.Profile, ps.Seasonal_Crop_List[0], m._init_cond, ps.CO2, ps.Soil.nComp, ps.Soil.z_top))
    return _gen_cache


def tokens_crop(k):
    return " ".join([hx(k.MaxCanopyCD), hx(k.Kcb), hx(k.fage), hx(k.a_Tr), str(int(k.TrColdStress)), hx(k.GDD_up), hx(k.GDD_lo),
                     hx(k.LagAer), hx(k.Zmin), hx(k.Aer)] + [hx(x) for x in k.p_up] + [hx(x) for x in k.p_lo] +
                    [str(int(k.ETadj)) if float(k.ETadj) == int(k.ETadj) else "7", hx(k.beta)] + [hx(x) for x in list(k.fshape_w)[:3]] +
                    [hx(k.SxTop), hx(k.SxBot)])


def tokens_state(s):
    out = []
    for f in STATE_F:
        v = getattr(s, f)
        out.append(tl(v) if np.ndim(v) == 1 else hx(v))
    return " ".join(out)


def out_tokens(r, s):
    tract, trpot_ns, trpot0, _, irrnet = r
    out = ["S", hx(tract), hx(trpot_ns), hx(trpot0), hx(irrnet)]
    for f in OUT_F:
        v = getattr(s, f)
        if np.ndim(v) == 1:
            out += tl(v).split()
        else:
            out.append(hx(v))
    return out


def classify(p, k, s0, method, gs, et0, co2c, co2r, gdd, r, s1):
    """branch statistics from inputs and outputs"""
    if r is None:
        STATS["raise"] += 1; return
    if not gs:
        STATS["off_season"] += 1; return
    STATS["in_season"] += 1
    STATS["method_%d" % method] += 1
    lag = k.LagAer
    ponded = s0["surface_storage"] > 0 and s0["day_submerged"] < lag
    STATS["ponded" if ponded else "not_ponded"] += 1
    if ponded:
        STATS["ponded_takes_surface" if s1.surface_storage < s0["surface_storage"] else "ponded_no_surface_tr"] += 1
    if s0["day_submerged"] >= lag: STATS["fully_submerged_lag"] += 1
    if max(s1.age_days, 0) > 5: STATS["ageing"] += 1
    if co2c > co2r: STATS["co2_above_ref"] += 1
    if s0["canopy_cover"] < s0["ccx_w"] and s0["ccx_w"] > 0.001 and s0["canopy_cover"] > 0.001: STATS["dying_canopy_pow"] += 1
    if k.TrColdStress == 1:
        STATS["cold_full" if gdd <= k.GDD_lo else ("cold_none" if gdd >= k.GDD_up else "cold_partial")] += 1
    tract, _, trpot0, _, irrnet = r
    if trpot0 > 0: STATS["trpot0_pos"] += 1
    if tract > 0: STATS["tract_pos"] += 1
    if tract == 0: STATS["tract_zero"] += 1
    if trpot0 > 0 and 0 < tract < trpot0 * (1 - 1e-9): STATS["stressed_partial"] += 1
    if trpot0 > 0 and abs(tract - trpot0) <= 1e-9 * trpot0: STATS["unstressed_full"] += 1
    if s1.aer_days > 0: STATS["rootzone_waterlogged"] += 1
    if np.any(s1.aer_days_comp > 0): STATS["comp_waterlogged"] += 1
    changed = int(np.sum(s1.th != s0["th"]))
    if changed: STATS["th_changed"] += 1
    if irrnet != 0: STATS["netirr_applied"] += 1
    if irrnet < 0: STATS["netirr_negative"] += 1
    if method == 4 and irrnet == 0: STATS["netirr_zero"] += 1
    if s1.canopy_cover != s0["canopy_cover"]: STATS["cc_reset_to_prev"] += 1
    if 0 < s1.tr_ratio < 1: STATS["tr_ratio_partial"] += 1


def snapshot(s):
    return {f: (np.array(getattr(s, f)).copy() if np.ndim(getattr(s, f)) == 1 else getattr(s, f)) for f in STATE_F}


def one_case(rng, kind):
    genuine = kind == "genuine"
    if genuine:
        prof, crop0, ic0, co2_0, ncomp_, ztop_ = rng.choice(genuine_objects())
        p = prof
        k = types.SimpleNamespace(**{f: getattr(crop0, f) for f in CROP_F + ["p_up", "p_lo", "ETadj", "beta", "fshape_w", "SxTop", "SxBot"]})
        crop_arg = crop0
        ncomp = len(p.dz)
        syn = gen_state(rng, p, k, ncomp)
        s = copy.deepcopy(ic0)
        for f in STATE_F:
            setattr(s, f, getattr(syn, f))
        ztop = ztop_
    else:
        p = gen_profile(rng)
        ncomp = len(p.dz)
        k = gen_crop(rng)
        if rng.random() < 0.97: fit_zmin(k, p)
        crop_arg = k
        s = gen_state(rng, p, k, ncomp)
        ztop = max(rng.choice([0.1, 0.1, 0.05, 0.2, 0.33]), float(p.dz[0]))
    method = rng.choice([0, 1, 2, 3, 4, 4, 4, 5])
    smt = rng.choice([70, 80, 50, 100, 0, 30.5, rng.uniform(0, 100)])
    et0 = rng.choice([grid(rng, 0.1, 12, 0.1), grid(rng, 0.1, 12, 0.1), 5.0, rng.uniform(0, 12), rng.uniform(0, 12), rng.choice([0.0, 3.3])])
    co2r = 369.41
    co2c = rng.choice([369.41, 336.78, 410.0, 550.0, 700.0, rng.uniform(300, 800)])
    gs = rng.random() < 0.93
    gdd = rng.choice([grid(rng, 0, 20, 0.5), grid(rng, 4, 20, 0.5), float(k.GDD_up), rng.choice([float(k.GDD_lo), 9.0]), rng.uniform(0, 16), rng.uniform(2, 16)])
    if kind == "malformed":
        how = rng.choice(["cold", "etadj", "deep", "short_th", "short_aer"])
        gs = True
        if how == "cold":
            k.TrColdStress = rng.choice([2, -1, 3])
        elif how == "etadj":
            k.ETadj = 0; et0 = 6.0; s.canopy_cover = 0.8; s.ccx_w = 0.8; s.canopy_cover_adj = 0.9; s.th = p.th_fc.copy()
            s.surface_storage = 0; k.TrColdStress = 0; s.age_days = 0; s.dap = 10; co2c = co2r; method = rng.choice([0, 4])
        elif how == "deep":
            s.z_root = float(p.dzsum[-1]) + rng.choice([0.011, 0.1, 1.0])
        elif how == "short_th":
            s.z_root = float(p.dzsum[-1]); s.th = s.th[: max(0, ncomp - 1 - rng.randint(0, 2))]
        else:
            s.surface_storage = 5.0; s.day_submerged = 0; s.aer_days_comp = s.aer_days_comp[: max(0, ncomp - 1)]
    co2 = types.SimpleNamespace(current_concentration=maybe_np(rng, co2c), ref_concentration=co2r)
    line = " ".join([tprof(p), hx(ztop), tokens_crop(k), str(method), hx(smt), tokens_state(s), hx(et0), hx(co2c), hx(co2r), tb(gs), hx(gdd)])
    s0 = snapshot(s)
    info = {"kind": kind, "prof": prof_info(p), "ztop": ztop, "method": method, "smt": smt, "et0": et0, "co2": co2c, "gs": gs, "gdd": gdd,
            "crop": {f: getattr(k, f) for f in CROP_F}, "p_up": list(k.p_up), "p_lo": list(k.p_lo), "fshape_w": list(k.fshape_w),
            "ETadj": k.ETadj, "beta": k.beta, "SxTop": k.SxTop, "SxBot": k.SxBot,
            "state": {f: (v.tolist() if np.ndim(v) == 1 else v) for f, v in s0.items()}}
    seen = None
    try:
        r, seen = traced_call(p, ncomp, ztop, crop_arg, method, smt, s, et0, co2, gs, gdd)
        exp = out_tokens(r, r[3])
    except ERRS as e:
        r = None
        exp = ["N"]
        info["raised"] = type(e).__name__
    if kind != "malformed":
        classify(p, k, s0, method, gs, et0, co2c, co2r, gdd, r, s)
        STATS[kind] += 1
        if seen:
            for nm, cnt in seen.items():
                STATS[nm] += 1
            if seen["b_loop_iteration"] >= 3: STATS["b_loop_3plus_compartments"] += 1
    else:
        STATS["malformed"] += 1
        STATS["malformed_raised" if r is None else "malformed_not_raised"] += 1
    return Case("transpiration", line, exp, info, "malformed" if kind == "malformed" else "valid")


def gen(rng, n):
    STATS.clear()
    for i in range(n):
        u = rng.random()
        kind = "malformed" if u < 0.02 else ("genuine" if u < 0.14 else "synthetic")
        yield one_case(rng, kind)
