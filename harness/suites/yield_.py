"""L1 suite for the yield unit (Crop/Yield.v): biomass_accumulation, HIref_current_day, harvest_index,
HIadj_pre_anthesis / HIadj_pollination / HIadj_post_anthesis and the yield lines (steps 18-19) of
run_single_timestep.py (executed from the source text of the real file).

Crop objects are the genuine ones of initialised models (every crop of crop_params); a share of the cases
perturbs single crop fields.  Most cases come from *season chains*: consecutive synthetic days on which the
four steps are called in the order of run_single_timestep (HIref -> biomass -> harvest_index -> yields) and the
state written by one call is the input of the next, so that accumulated fields are realistic.

Run:  from suites import yield_ as u;  l1.run_suite('yield', u.gen, 20000, unit='yield');  u.COVER has the
branch coverage of the last generation."""
import types, copy, math, inspect, textwrap, collections
import numpy as np
from common import *
from l1 import Case
from suites.profiles import *

install_libm_proxy()
import aquacrop.solution.HIadj_pre_anthesis as _pre_mod


class _TrigProxy(NpProxy):
    """np.sin on scalars through libm as well (the model's float instance calls libm sin)"""
    def sin(self, x, *a, **k):
        np_ = object.__getattribute__(self, "_np")
        if np_.ndim(x) == 0 and not a and not k:
            return np_.float64(math.sin(float(x)))
        return np_.sin(x, *a, **k)


_pre_mod.np = _TrigProxy(np)

from aquacrop.solution.biomass_accumulation import biomass_accumulation
from aquacrop.solution.HIref_current_day import HIref_current_day
from aquacrop.solution.harvest_index import harvest_index
from aquacrop.solution.HIadj_pre_anthesis import HIadj_pre_anthesis
from aquacrop.solution.HIadj_pollination import HIadj_pollination
from aquacrop.solution.HIadj_post_anthesis import HIadj_post_anthesis
from aquacrop.solution.root_zone_water import root_zone_water as _rzw
import aquacrop.timestep.run_single_timestep as _rst
from aquacrop.entities.crops.crop_params import crop_params

COVER = collections.Counter()
ERRS = (UnboundLocalError, IndexError, ZeroDivisionError, AssertionError)

# ---------------------------------------------------------------------------------------------
# genuine crop objects
_CROPS = None
YFIELDS = ["CropType", "Determinant", "HIstartCD", "YldFormCD", "HIendCD", "FloweringCD", "CanopyDevEndCD", "tLinSwitch",
           "dHILinear", "HIGC", "HI0", "HIini", "WP", "WPy", "fCO2", "dHI_pre", "dHI0", "a_HI", "b_HI", "exc", "CCmin", "YldWC"]
SFIELDS = ["Zmin", "Aer", "p_up", "p_lo", "ETadj", "beta", "fshape_w", "PolHeatStress", "PolColdStress", "Tmax_lo", "Tmax_up",
           "Tmin_lo", "Tmin_up", "fshape_b"]
XFIELDS = ["CalendarType", "Maturity", "MaturityCD", "SenescenceCD", "CCx", "Name"]


def crops():
    global _CROPS
    if _CROPS is None:
        from aquacrop import AquaCropModel, Soil, Crop, InitialWaterContent
        from aquacrop.utils import prepare_weather, get_filepath
        wdf = prepare_weather(get_filepath("tunis_climate.txt"))
        _CROPS = []
        for name in sorted(crop_params):
            m = AquaCropModel("1982/05/01", "1983/12/31", wdf, Soil("SandyLoam"), Crop(name, planting_date="05/01"),
                              InitialWaterContent(value=["FC"]))
            m._initialize()
            _CROPS.append(m._param_struct.Seasonal_Crop_List[0])
    return _CROPS


def crop_ns(c):
    """a mutable copy of the fields the unit reads (same Python types as in the real object)"""
    ns = types.SimpleNamespace()
    for k in YFIELDS + SFIELDS + XFIELDS:
        v = getattr(c, k)
        setattr(ns, k, v.copy() if isinstance(v, np.ndarray) else v)
    return ns


def pick_crop(rng):
    """a genuine crop object, or (30 %) a copy with one or two fields perturbed"""
    c = rng.choice(crops())
    if rng.random() < 0.7:
        COVER["crop.genuine"] += 1
        return c
    COVER["crop.perturbed"] += 1
    ns = crop_ns(c)
    for _ in range(rng.choice([1, 2])):
        k = rng.choice(["CropType", "Determinant", "WPy", "dHI_pre", "a_HI", "b_HI", "dHI0", "exc", "YldWC", "Pol", "CCmin", "tLin"])
        if k == "CropType":
            ns.CropType = rng.choice([1, 2, 3])
            if ns.CropType == 3 and ns.FloweringCD <= 0:
                ns.FloweringCD = float(rng.choice([10, 20, 40]))
            if ns.CropType == 3 and ns.tLinSwitch <= 0:
                ns.tLinSwitch = 15; ns.dHILinear = np.float64(0.009)
        elif k == "Determinant": ns.Determinant = 1.0 - float(ns.Determinant)
        elif k == "WPy": ns.WPy = float(rng.choice([50, 60, 85, 100, 120]))
        elif k == "dHI_pre": ns.dHI_pre = float(rng.choice([0, 1, 2, 4, 5, 10, 0.5]))
        elif k == "a_HI": ns.a_HI = float(rng.choice([-9, 0, 0.5, 1, 4, 10]))
        elif k == "b_HI": ns.b_HI = float(rng.choice([-9, 0, 0.5, 1, 3, 10]))
        elif k == "dHI0": ns.dHI0 = float(rng.choice([0, 5, 15, 30]))
        elif k == "exc": ns.exc = float(rng.choice([-9, 0, 50, 100, 200]))
        elif k == "YldWC": ns.YldWC = rng.choice([0, 5, 20, 90])
        elif k == "Pol": ns.PolHeatStress = rng.choice([0, 1]); ns.PolColdStress = rng.choice([0, 1])
        elif k == "CCmin": ns.CCmin = rng.choice([0.05, 0.1, 0.3])
        elif k == "tLin" and ns.CropType == 3:
            ns.tLinSwitch = rng.choice([0, 5, int(ns.tLinSwitch)]); ns.dHILinear = np.float64(rng.choice([0.0, 0.005, float(ns.dHILinear)]))
    return ns


def tycrop(c):
    return " ".join([str(int(c.CropType))] + [hx(getattr(c, k)) for k in YFIELDS[1:]])


def tscrop(c):
    return " ".join([hx(c.Zmin), hx(c.Aer)] + [hx(x) for x in c.p_up] + [hx(x) for x in c.p_lo] + [str(int(c.ETadj)), hx(c.beta)]
                    + [hx(x) for x in c.fshape_w[:3]] + [str(int(c.PolHeatStress)), str(int(c.PolColdStress)), hx(c.Tmax_lo),
                                                          hx(c.Tmax_up), hx(c.Tmin_lo), hx(c.Tmin_up), hx(c.fshape_b)])


HS = ["harvest_index", "harvest_index_adj", "pre_adj", "f_pre", "f_pol", "s_cor1", "s_cor2", "fpost_upp", "fpost_dwn", "f_post"]


def thstate(s):
    return " ".join(tb(getattr(s, k)) if k == "pre_adj" else hx(getattr(s, k)) for k in HS)


def crop_info(c):
    return {k: (float(getattr(c, k)) if not isinstance(getattr(c, k), (str,)) else getattr(c, k)) for k in YFIELDS} | {"Name": c.Name}


def hit_of(c, dap, dcds):
    return dap - dcds - c.HIstartCD - 1


# ---------------------------------------------------------------------------------------------
# single-call case builders (they also tag branch coverage)
def case_biomass(c, dap, dcds, hiref, pct, B, Bns, Tr, TrPot, et0, gs, kind="valid"):
    try:
        r = biomass_accumulation(c, dap, dcds, hiref, pct, B, Bns, Tr, TrPot, et0, gs)
        exp = ["S", hx(r[0]), hx(r[1])]
    except ERRS:
        r = None; exp = ["N"]
    if kind == "valid":
        if not gs: COVER["bio.offseason"] += 1
        elif c.CropType in (2, 3) and hiref > 0:
            if c.Determinant == 1: COVER["bio.fswitch=pct/100"] += 1
            elif hit_of(c, dap, dcds) < c.YldFormCD / 3: COVER["bio.fswitch=HIt/(Yld/3)"] += 1
            else: COVER["bio.fswitch=1"] += 1
            if c.WPy != 100: COVER["bio.WPy<>100"] += 1
        else: COVER["bio.no_switch"] += 1
    line = " ".join([tycrop(c), str(dap), str(dcds), hx(hiref), hx(pct), hx(B), hx(Bns), hx(Tr), hx(TrPot), hx(et0), tb(gs)])
    info = {"crop": crop_info(c), "dap": dap, "dcds": dcds, "hiref": float(hiref), "pct": float(pct), "B": float(B), "Bns": float(Bns),
            "Tr": float(Tr), "TrPot": float(TrPot), "et0": float(et0), "gs": gs}
    return Case("biomass_accumulation", line, exp, info, kind), r


def case_hiref(c, hiref, hifinal, dap, dcds, yf, pct, cc, ccprev, ccxw, gs, kind="valid"):
    r = HIref_current_day(hiref, hifinal, dap, dcds, yf, pct, cc, ccprev, ccxw, c, gs)
    t = hit_of(c, dap, dcds)
    if not gs: COVER["hiref.offseason"] += 1
    elif t <= 0: COVER["hiref.HIt<=0"] += 1
    else:
        if c.CropType in (1, 2):
            COVER["hiref.type12"] += 1
        elif c.CropType == 3:
            COVER["hiref.type3.logistic" if t < c.tLinSwitch else "hiref.type3.linear"] += 1
        if r[0] == 0: COVER["hiref.limit->0"] += 1
        elif r[0] == c.HI0: COVER["hiref.=HI0"] += 1
        if (hifinal == c.HI0) and (t <= c.YldFormCD) and (cc <= 0.05) and (ccxw > 0) and (cc < ccxw) and c.CropType in (2, 3):
            COVER["hiref.HIfinal_local_set"] += 1
        elif hifinal < c.HI0 and r[0] == hifinal: COVER["hiref.capped_by_HIfinal"] += 1
    line = " ".join([tycrop(c), hx(hiref), hx(hifinal), str(dap), str(dcds), tb(yf), hx(pct), hx(cc), hx(ccxw), tb(gs)])
    info = {"crop": crop_info(c), "hiref": float(hiref), "hifinal": float(hifinal), "dap": dap, "dcds": dcds, "yf": yf, "pct": float(pct),
            "cc": float(cc), "ccxw": float(ccxw), "gs": gs}
    return Case("HIref_current_day", line, [hx(r[0]), tb(r[1]), hx(r[2])], info, kind), r


def case_pre(B, Bns, cc, dpre):
    r = HIadj_pre_anthesis(B, Bns, cc, dpre)
    if cc <= 0.01: COVER["pre.cc<=0.01"] += 1
    elif dpre <= 0: COVER["pre.no_adj"] += 1
    elif r == 1: COVER["pre.outside_range"] += 1
    else:
        Br = B / Bns; rng_ = math.log(dpre) / 5.62
        COVER["pre.low_branch" if Br < 1 - rng_ / 3 else "pre.upp_branch"] += 1
    return Case("HIadj_pre_anthesis", " ".join(hx(x) for x in (B, Bns, cc, dpre)), [hx(r)],
                {"B": float(B), "Bns": float(Bns), "cc": float(cc), "dHI_pre": float(dpre)})


def case_pol(cc, fpol, flo, ccmin, exc, kpol, polc, polh, t, kind="valid"):
    ksw = types.SimpleNamespace(pol=kpol); kst = types.SimpleNamespace(PolC=polc, PolH=polh)
    try:
        r = HIadj_pollination(cc, fpol, flo, ccmin, exc, ksw, kst, t)
        exp = ["S", hx(r)]
        if kind == "valid":
            if cc < ccmin: COVER["pol.cc<CCmin"] += 1
            elif r >= 1: COVER["pol.capped_at_1"] += 1
            elif r == fpol: COVER["pol.dFpol=0"] += 1
            else: COVER["pol.increment"] += 1
    except ERRS:
        exp = ["N"]
    return Case("HIadj_pollination", " ".join(hx(x) for x in (cc, fpol, flo, ccmin, exc, kpol, polc, polh, t)), exp,
                {"cc": float(cc), "fpol": float(fpol), "FloweringCD": float(flo), "CCmin": float(ccmin), "exc": float(exc), "Ksw_pol": float(kpol),
                 "PolC": float(polc), "PolH": float(polh), "HIt": float(t)}, kind)


def case_post(c, dcds, s1, s2, dap, fpre, cc, upp, dwn, kexp, ksto, kind="valid"):
    ksw = types.SimpleNamespace(exp=kexp, sto=ksto)
    try:
        r = HIadj_post_anthesis(dcds, s1, s2, dap, fpre, cc, upp, dwn, c, ksw)
        exp = ["S"] + [hx(x) for x in r]
        if kind == "valid":
            d = dap - dcds
            g = (fpre > 0.99) and (cc > 0.001)
            t1 = c.CanopyDevEndCD - c.HIstartCD; t2 = c.YldFormCD
            if g and d <= c.CanopyDevEndCD + 1 and t1 > 0 and c.a_HI > 0: COVER["post.upp_updated"] += 1
            if g and d <= c.HIendCD + 1 and t2 > 0 and c.b_HI > 0: COVER["post.dwn_updated"] += 1
            if t1 == 0 and t2 == 0: COVER["post.fpost=1"] += 1
            elif t2 == 0: COVER["post.fpost=upp"] += 1
            elif t1 == 0: COVER["post.fpost=dwn"] += 1
            elif t1 <= t2: COVER["post.tmax1<=tmax2"] += 1
            else: COVER["post.tmax1>tmax2"] += 1
    except ERRS:
        exp = ["N"]
    line = " ".join([tycrop(c), str(dcds), hx(s1), hx(s2), str(dap), hx(fpre), hx(cc), hx(upp), hx(dwn), hx(kexp), hx(ksto)])
    return Case("HIadj_post_anthesis", line, exp,
                {"crop": crop_info(c), "dcds": dcds, "scor1": float(s1), "scor2": float(s2), "dap": dap, "fpre": float(fpre), "cc": float(cc),
                 "upp": float(upp), "dwn": float(dwn), "Ksw_exp": float(kexp), "Ksw_sto": float(ksto)}, kind)


def case_hi(p, ztop, c, st, et0, tmax, tmin, gs, kind="valid"):
    """st: namespace with every state field harvest_index reads; returns (Case, new state or None)"""
    line = " ".join([tprof(p), hx(ztop), tycrop(c), tscrop(c), thstate(st), hx(st.z_root), tl(st.th), hx(st.t_early_sen), hx(st.hi_ref),
                     str(st.dap), str(st.delayed_cds), tb(st.yield_form), hx(st.biomass), hx(st.biomass_ns), hx(st.canopy_cover),
                     hx(et0), hx(tmax), hx(tmin), tb(gs)])
    info = {"crop": crop_info(c), "prof": prof_info(p), "th": st.th.tolist(), "ztop": ztop, "et0": et0, "tmax": tmax, "tmin": tmin, "gs": gs,
            "state": {k: (v.tolist() if isinstance(v, np.ndarray) else (bool(v) if isinstance(v, bool) else float(v)))
                      for k, v in vars(st).items()}}
    new = copy.copy(st)
    t = hit_of(c, st.dap, st.delayed_cds)
    pre0 = st.pre_adj
    try:
        new = harvest_index(p, ztop, c, new, et0, tmax, tmin, gs)
        exp = ["S"] + [tb(getattr(new, k)) if k == "pre_adj" else hx(getattr(new, k)) for k in HS]
        if kind == "valid":
            if not gs: COVER["hi.offseason"] += 1
            elif not (st.yield_form and t >= 0): COVER["hi.outside_yield_formation"] += 1
            elif c.CropType == 1: COVER["hi.leafy"] += 1
            else:
                COVER["hi.type%d" % c.CropType] += 1
                rz = _rzw(p, float(st.z_root), st.th, ztop, float(c.Zmin), c.Aer)
                COVER["hi.stress_from_rootzone" if rz[2] / rz[4] <= rz[1] / rz[3] else "hi.stress_from_topsoil"] += 1
                if not pre0: COVER["hi.pre_anthesis_called"] += 1
                if c.CropType == 3 and 0 < t <= c.FloweringCD: COVER["hi.pollination_called"] += 1
                if t > 0: COVER["hi.post_anthesis_called"] += 1
                if new.f_pre * new.f_post > 1 + c.dHI0 / 100: COVER["hi.HImult_capped"] += 1
                hmax = new.f_pol * c.HI0 if c.CropType == 3 else c.HI0
                COVER["hi.HImax>=HIi" if hmax >= st.hi_ref else "hi.HImax<HIi"] += 1
    except ERRS as e:
        exp = ["N"]; new = None
        if kind == "valid": COVER["hi.raises_" + type(e).__name__] += 1
    return Case("harvest_index", line, exp, info, kind), new


# the yield lines: source text of steps 18-19 of the real run_single_timestep
def _yield_block():
    src = inspect.getsource(_rst).splitlines()
    i0 = next(i for i, l in enumerate(src) if "# 18. Yield potential" in l)
    i1 = next(i for i, l in enumerate(src) if "# 20. Root zone water" in l)
    return compile(textwrap.dedent("\n".join(src[i0:i1])), "run_single_timestep.py[steps 18-19]", "exec")


_YB = _yield_block()


def case_yields(c, B, Bns, hi, hiadj, gs, dap, gdd_cum, mature):
    ns = types.SimpleNamespace(biomass=B, biomass_ns=Bns, harvest_index=hi, harvest_index_adj=hiadj, dap=dap, gdd_cum=gdd_cum,
                               crop_mature=mature, DryYield=-1.0, FreshYield=-1.0, YieldPot=-1.0)
    exec(_YB, {"NewCond": ns, "crop": c, "growing_season": gs})
    COVER["yields.in_season" if gs else "yields.offseason"] += 1
    if gs and c.YldWC == 0: COVER["yields.YldWC=0"] += 1
    if ns.crop_mature and not mature: COVER["yields.maturity_reached"] += 1
    line = " ".join([hx(B), hx(Bns), hx(hi), hx(hiadj), hx(c.YldWC), tb(gs), str(int(c.CalendarType)), str(dap), hx(gdd_cum), hx(c.Maturity),
                     tb(mature)])
    return Case("yields", line, [hx(ns.DryYield), hx(ns.FreshYield), hx(ns.YieldPot), tb(ns.crop_mature)],
                {"crop": c.Name, "YldWC": float(c.YldWC), "B": float(B), "Bns": float(Bns), "HI": float(hi), "HIadj": float(hiadj), "gs": gs,
                 "dap": dap, "gdd_cum": float(gdd_cum), "Maturity": float(c.Maturity), "CalendarType": int(c.CalendarType)})


# ---------------------------------------------------------------------------------------------
# season chains
def canopy(rng, c, dap, scen, tdeath):
    """synthetic canopy trajectory: logistic-like rise to CCx, decline after senescence; 'death' scenarios collapse early"""
    ccx = float(c.CCx)
    sen = float(c.SenescenceCD) if float(c.SenescenceCD) > 0 else 0.8 * float(c.MaturityCD)
    mat = max(float(c.MaturityCD), sen + 5)
    rise = ccx / (1 + math.exp(-(dap - 0.35 * sen) * 12 / max(sen, 1)))
    cc = rise if dap <= sen else rise * max(0.0, 1 - ((dap - sen) / (mat - sen)) ** 2)
    if scen == "stress": cc *= 0.6
    if scen == "death" and dap >= tdeath:
        cc *= max(0.0, 1 - (dap - tdeath) / 6.0)
    if scen == "bare": cc = 0.005
    return np.float64(cc)


def season(rng, budget):
    """one synthetic season; yields Cases until the budget of cases is used"""
    c = pick_crop(rng)
    if rng.random() < 0.2:      # tight cap on the HI multiplier
        c = crop_ns(c); c.dHI0 = float(rng.choice([0, 1, 2])); c.dHI_pre = float(rng.choice([c.dHI_pre, 5, 10]))
    p = gen_profile(rng, ncomp=rng.choice([5, 8, 12, 12, 12]))
    ztop = max(rng.choice([0.1, 0.1, 0.2]), float(p.dz[0]))
    tot = float(p.dzsum[-1])
    scen = rng.choice(["normal", "normal", "normal", "stress", "death", "death", "bare"])
    his, yld = int(c.HIstartCD), int(c.YldFormCD)
    tdeath = his + rng.randint(-3, max(2, yld))
    dap = max(1, his - rng.randint(0, 12))
    last = his + yld + rng.randint(2, 8)
    if rng.random() < 0.3: last = max(last, int(c.MaturityCD) + 2)
    if last - dap > 140:       # very long yield formation (Cassava): sample a window
        last = dap + 140
    wet = rng.choice(["mix", "wet", "dry"])
    st = types.SimpleNamespace(
        harvest_index=0, harvest_index_adj=0, pre_adj=False, f_pre=1, f_pol=0, s_cor1=0, s_cor2=0, fpost_upp=1, fpost_dwn=1, f_post=1,
        z_root=float(c.Zmin), th=None, t_early_sen=0, hi_ref=0.0, dap=dap, delayed_cds=0, yield_form=False,
        biomass=np.float64(rng.uniform(50, 900)), biomass_ns=None, canopy_cover=0, pct_lag_phase=0, ccx_w=0, cc_prev=0)
    st.biomass_ns = np.float64(st.biomass / rng.choice([1.0, 1.0, rng.uniform(0.55, 1.0), rng.uniform(0.8, 1.0)]))
    # HIfinal: the caller always passes crop.HI0 (it is never written back); sometimes pretend it had been persisted
    persist = rng.random() < 0.25
    hifinal = float(c.HI0)
    gdd_cum = 0.0
    mature = False
    n = 0
    off_tail = rng.choice([0, 0, 2])
    while n < budget and dap <= last + off_tail:
        gs = dap <= last
        st.dap = dap
        if gs and rng.random() < 0.04:
            st.delayed_cds += 1
        cc = canopy(rng, c, dap - st.delayed_cds, scen, tdeath)
        st.cc_prev = st.canopy_cover
        st.canopy_cover = cc if gs else 0
        st.ccx_w = max(st.ccx_w, cc) if gs else 0
        et0 = round(rng.uniform(0.3, 11.0), rng.choice([1, 2, 3]))
        tmax = round(rng.uniform(12, 49), 1); tmin = round(tmax - rng.uniform(3, 22), 1)
        gdd_cum += max(0.0, (tmax + tmin) / 2 - 8)
        # 15. reference harvest index
        cs, r = case_hiref(c, st.hi_ref, hifinal, dap, st.delayed_cds, st.yield_form, st.pct_lag_phase, st.canopy_cover, st.cc_prev,
                           st.ccx_w, gs)
        yield cs; n += 1
        st.hi_ref, st.yield_form, st.pct_lag_phase = r
        if persist and gs and hit_of(c, dap, st.delayed_cds) > 0 and cc <= 0.05 and hifinal == c.HI0 and c.CropType in (2, 3):
            hifinal = float(st.hi_ref)      # what the commented-out return value would have done
        # 16. biomass
        if cc > 0:
            trpot = np.float64(rng.uniform(0.0, 1.15) * et0 * float(cc)); tr = np.float64(trpot * rng.choice([1.0, 1.0, rng.random(), 0.0]))
        else:
            tr = 0; trpot = 0.0
        cs, r = case_biomass(c, dap, st.delayed_cds, st.hi_ref, st.pct_lag_phase, st.biomass, st.biomass_ns, tr, trpot, et0, gs)
        yield cs; n += 1
        if r is not None:
            st.biomass, st.biomass_ns = r
        # 17. harvest index
        st.th = gen_th(rng, p) if wet == "mix" else np.array([
            (rng.uniform(p.th_fc[i], p.th_s[i]) if wet == "wet" else rng.uniform(p.th_dry[i], 0.5 * (p.th_wp[i] + p.th_fc[i])))
            for i in range(len(p.dz))])
        if rng.random() < 0.25: st.th = gen_th(rng, p)
        st.z_root = float(min(tot * rng.choice([1.0] * 24 + [1.1]), round(float(c.Zmin) + 0.012 * dap, 3)))
        st.t_early_sen = rng.choice([0, 0, 0, 3])
        cs, new = case_hi(p, ztop, c, st, et0, tmax, tmin, gs)
        yield cs; n += 1
        if new is not None:
            st = new
        # 18-19. yields
        cs = case_yields(c, st.biomass, st.biomass_ns, st.harvest_index, st.harvest_index_adj, gs, dap, gdd_cum, mature)
        mature = cs.expect[3] == "T"
        yield cs; n += 1
        dap += 1


# ---------------------------------------------------------------------------------------------
# direct streams (wide ranges, independent arguments)
def u01(rng):
    return np.float64(rng.choice([0.0, 1.0, rng.random(), rng.random(), round(rng.random(), 2)]))


def direct(rng, n):
    for i in range(n):
        k = (0, 0, 1, 1, 2, 2, 2, 3, 4, 5)[i % 10]
        c = pick_crop(rng)
        his, yld = int(c.HIstartCD), int(c.YldFormCD)
        dcds = rng.choice([0, 0, 0, rng.randint(0, 6)])
        dap = his + dcds + 1 + rng.randint(-4, yld + 6)
        if k == 0:
            B = np.float64(rng.uniform(1, 2500)); dpre = float(rng.choice([c.dHI_pre, c.dHI_pre, 0.0, 0.5, 1.0, 2.0, 3.0, 4.0, 5.0, 5.0, 10.0, 20.0]))
            rg = math.log(dpre) / 5.62 if dpre > 0 else 0.3
            Br = rng.choice([1.0, rng.uniform(0.3, 1.05), rng.uniform(1 - rg, 1 - rg / 3), rng.uniform(1 - rg / 3, 1.0),
                             rng.uniform(1 - rg / 3, 1.0), 1 - rg, 1 - rg / 3])
            Bns = np.float64(B / Br) if rng.random() < 0.97 else np.float64(0.0)
            cc = np.float64(rng.choice([0.0, 0.01, 0.0101] + [rng.random() for _ in range(7)]))
            yield case_pre(B, Bns, cc, dpre)
        elif k == 1:
            flo = float(c.FloweringCD) if c.FloweringCD > 0 else float(rng.choice([8, 15, 30]))
            t = float(rng.choice([0, 1, 2, rng.randint(1, int(flo) + 3), rng.randint(1, int(flo))]))
            cc = np.float64(rng.choice([rng.random(), rng.random(), c.CCmin, 0.01]))
            fpol = rng.choice([0, np.float64(rng.uniform(0, 1.0)), np.float64(rng.uniform(0, 0.3)), np.float64(0.97), np.float64(0.995), np.float64(0.999)])
            exc = float(c.exc) if c.exc > -9 else float(rng.choice([0, 50, 100]))
            yield case_pol(cc, fpol, flo, float(c.CCmin), exc, u01(rng), rng.choice([1, u01(rng)]), rng.choice([1, 0, u01(rng)]), t)
        elif k == 2:
            if rng.random() < 0.45:
                c = crop_ns(c)
                m = rng.choice(["t1=0", "t2=0", "both0", "t1>t2", "a", "a"])
                if m in ("t1=0", "both0"): c.CanopyDevEndCD = c.HIstartCD
                if m in ("t2=0", "both0"): c.YldFormCD = 0.0
                if m == "t1>t2": c.CanopyDevEndCD = c.HIstartCD + c.YldFormCD + rng.randint(1, 30)
                if m in ("a", "t1>t2", "t2=0"):
                    c.a_HI = float(rng.choice([0.5, 2, 7, 10]))
                    if c.CanopyDevEndCD <= c.HIstartCD: c.CanopyDevEndCD = c.HIstartCD + rng.randint(3, 40)
                if rng.random() < 0.5: c.b_HI = float(rng.choice([0.5, 1, 3, 10]))
                yld = int(c.YldFormCD)
                dap = his + dcds + 2 + rng.randint(0, max(1, int(c.CanopyDevEndCD - c.HIstartCD)))
            fpre = rng.choice([1, np.float64(1 + rng.random() * 0.1), np.float64(0.0), np.float64(0.99), np.float64(0.995)])
            cc = np.float64(rng.choice([rng.random(), rng.random(), 0.001, 0.0, 0.0011]))
            t = max(1, dap - dcds - 1 - his)
            s1 = np.float64(rng.uniform(0, 1.3) * min(1.0, t / max(1.0, float(c.CanopyDevEndCD - c.HIstartCD))))
            s2 = np.float64(rng.uniform(0, 1.1) * min(1.0, t / max(1.0, float(c.YldFormCD))))
            if dap - dcds - 1 - his == 0:
                dap += 1
            yield case_post(c, dcds, rng.choice([0, s1]), rng.choice([0, s2, s2]), dap, fpre, cc,
                            rng.choice([1, np.float64(rng.uniform(0.9, 1.6))]), rng.choice([1, np.float64(rng.uniform(0.2, 1.05))]), u01(rng), u01(rng))
        elif k == 3:
            gs = rng.random() < 0.9
            hifinal = float(c.HI0) if rng.random() < 0.7 else float(c.HI0) * rng.random()
            cc = np.float64(rng.choice([rng.random(), 0.05, 0.03, 0.0])); ccxw = np.float64(rng.choice([0.0, cc, rng.random(), 0.9]))
            cs, _ = case_hiref(c, np.float64(rng.random() * c.HI0), hifinal, dap, dcds, rng.random() < 0.5, rng.choice([0, 100, 37.5]), cc, cc, ccxw, gs)
            yield cs
        elif k == 5:
            gs = rng.random() < 0.85
            if rng.random() < 0.3:
                c = crop_ns(c); c.YldWC = rng.choice([0, 0, 5, 20, 65, 90])
            B = np.float64(rng.uniform(0, 3000)) if gs else 0
            Bns = np.float64(B * rng.uniform(1.0, 1.4)) if gs else 0
            hi = rng.choice([0, np.float64(rng.random() * c.HI0), float(c.HI0)]) if gs else 0
            hiadj = rng.choice([0, np.float64(hi * rng.uniform(0.0, 1.2))]) if gs else 0
            d = int(c.MaturityCD) + rng.randint(-3, 3) if c.CalendarType == 1 else rng.randint(1, 300)
            g = float(c.Maturity) + rng.choice([-20.5, -1.0, 0.0, 0.5, 30.0]) if c.CalendarType == 2 else rng.uniform(0, 3000)
            yield case_yields(c, B, Bns, hi, hiadj, gs, d, g, rng.random() < 0.2)
        else:
            gs = rng.random() < 0.9
            et0 = rng.choice([round(rng.uniform(0.1, 12), 2), rng.uniform(0.1, 12)])
            trpot = np.float64(rng.uniform(0, 12)); tr = rng.choice([0, np.float64(trpot * rng.random()), trpot])
            hiref = rng.choice([0, 0.0, np.float64(rng.random() * c.HI0), float(c.HI0)])
            pct = rng.choice([0, 100, 100 * rng.random(), 100 * (rng.randint(1, 10) / 19)])
            cs, _ = case_biomass(c, dap, dcds, hiref, pct, np.float64(rng.uniform(0, 2500)), np.float64(rng.uniform(0, 2800)), tr, trpot, et0, gs)
            yield cs


def malformed(rng, n):
    for i in range(n):
        k = i % 6
        c = crop_ns(rng.choice(crops()))
        his = int(c.HIstartCD)
        COVER["malformed"] += 1
        if k == 0:      # et0 = 0 on a no-canopy day: Tr is the int 0, TrPot a Python float -> ZeroDivisionError
            cs, _ = case_biomass(c, his + 5, 0, 0.0, 0, np.float64(100.0), np.float64(120.0), 0, 0.0, 0.0, True, "malformed")
            yield cs
        elif k == 1:    # YldFormCD = 0, indeterminate crop, HIt < 0, hi_ref > 0 -> HIt / 0.0
            c.YldFormCD = 0.0; c.Determinant = 0.0; c.CropType = rng.choice([2, 3])
            cs, _ = case_biomass(c, his - rng.randint(0, 5), 0, 0.2, 50, np.float64(100.0), np.float64(120.0), np.float64(1.0), np.float64(2.0), 5.0, True, "malformed")
            yield cs
        elif k == 2:    # FloweringCD = 0 -> t / 0 ; HIt < 0 with canopy -> FracFlow unbound
            if rng.random() < 0.5:
                yield case_pol(np.float64(0.5), 0, 0.0, 0.05, 50.0, np.float64(1.0), 1, 1, float(rng.randint(2, 9)), "malformed")
            else:
                yield case_pol(np.float64(0.5), 0, 12.0, 0.05, 50.0, np.float64(1.0), 1, 1, float(-rng.randint(1, 5)), "malformed")
        elif k == 3:    # DayCor = 0
            c.a_HI = 5.0; c.b_HI = 5.0
            yield case_post(c, 0, 0, 0, his + 1, 1, np.float64(0.5), 1, 1, np.float64(1.0), np.float64(1.0), "malformed")
        else:           # harvest_index: unknown crop type / stress flag / root depth below the profile
            p = gen_profile(rng, ncomp=5)
            st = types.SimpleNamespace(harvest_index=0.2, harvest_index_adj=0.2, pre_adj=True, f_pre=1, f_pol=0.5, s_cor1=0.2, s_cor2=0.2,
                                       fpost_upp=1, fpost_dwn=1, f_post=1, z_root=0.3, th=gen_th(rng, p), t_early_sen=0, hi_ref=0.2,
                                       dap=his + 6, delayed_cds=0, yield_form=True, biomass=np.float64(500.0), biomass_ns=np.float64(600.0),
                                       canopy_cover=np.float64(0.6))
            if k == 4:
                c.CropType = rng.choice([0, 4])
            elif rng.random() < 0.5:
                c.PolHeatStress = 2
            else:
                st.z_root = float(p.dzsum[-1]) + 0.3
            cs, _ = case_hi(p, max(0.1, float(p.dz[0])), c, st, 5.0, 30.0, 15.0, True, "malformed")
            yield cs


def gen(rng, n):
    COVER.clear()
    n_mal = max(6, n // 100)
    n_dir = n * 3 // 10
    n_chain = n - n_mal - n_dir
    done = 0
    while done < n_chain:
        for cs in season(rng, n_chain - done):
            yield cs; done += 1
    yield from direct(rng, n_dir)
    yield from malformed(rng, n_mal)
