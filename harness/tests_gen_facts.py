#!/venv/bin/python
"""tests_gen_facts.py — self-test of the fail-closed translator harness/gen_facts.py.

Applies small mutations to a temporary copy of the package source under /tmp/genfacts_test/, runs the
translator on the copy (VERIF_REPO=<copy>, --out <temp dir>) and checks that the expected table changes
(or that the translator refuses).  With --coq the regenerated tables are additionally compiled together
with theories/proofs/GenFactsOK.v in a scratch directory: a mutation that introduces a forbidden store /
a forgotten reset must make an obligation fail, a semantics-preserving edit must not.

usage:  /venv/bin/python harness/tests_gen_facts.py [--coq] [--keep] [--only name,name]
exit status 0 iff every test passed.  /tmp/genfacts_test is removed afterwards (unless --keep)."""
import os, re, shutil, subprocess, sys, time

VERIF = os.path.dirname(os.path.dirname(os.path.abspath(__file__)))
SRC_REPO = os.environ.get("VERIF_REPO", "/repo")
BASE = "/tmp/genfacts_test"
PY = "/venv/bin/python"
GEN = os.path.join(VERIF, "harness", "gen_facts.py")


# ------------------------------------------------------------------------------------------------
def copy_repo(dst):
    if os.path.exists(dst):
        shutil.rmtree(dst)
    shutil.copytree(os.path.join(SRC_REPO, "aquacrop"), os.path.join(dst, "aquacrop"),
                    ignore=lambda d, names: [n for n in names
                                             if n == "__pycache__" or (os.path.isfile(os.path.join(d, n)) and not n.endswith(".py"))])


def edit(repo, rel, old, new, count=1):
    p = os.path.join(repo, rel)
    s = open(p).read()
    if s.count(old) != count:
        raise RuntimeError("test set-up: %r occurs %d times in %s (expected %d)" % (old[:60], s.count(old), rel, count))
    open(p, "w").write(s.replace(old, new))


def append(repo, rel, text):
    with open(os.path.join(repo, rel), "a") as f:
        f.write(text)


def run_gen(repo, out):
    env = dict(os.environ, VERIF_REPO=repo, PYTHONPATH="%s/harness:%s" % (VERIF, repo))
    r = subprocess.run([PY, "-W", "ignore", GEN, "--out", out], env=env, capture_output=True, text=True, timeout=300)
    return r.returncode, (r.stdout + r.stderr).strip()


def tables(out):
    """{definition name: [row strings]} for every `Definition name : list ... := [ ... ].` of the generated files,
    plus scalar definitions as one-element lists"""
    res = {}
    for fn in ("StateFields.v", "StoreSites.v", "OrderSources.v"):
        p = os.path.join(out, fn)
        if not os.path.exists(p):
            continue
        s = open(p).read()
        s = re.sub(r"\(\*.*?\*\)", "", s, flags=re.S)
        for m in re.finditer(r"Definition (\w+) : ([^:=]*?):=\s*(.*?)\.\s*(?=\n|$)", s, flags=re.S):
            name, body = m.group(1), m.group(3).strip()
            if body.startswith("["):
                rows = [r.strip() for r in re.findall(r'\(("[^\n]*?)\)\s*;?\s*$|^\s*("(?:[^"]|"")*")\s*;?\s*$', body, flags=re.M)
                        for r in r if r]
                res[name] = rows
            else:
                res[name] = [body]
    return res


def has_row(tab, name, *parts):
    """some row of table `name` contains every given part as a quoted string / bare token"""
    for r in tab.get(name, []):
        if all((('"%s"' % p) in r) or (p in r.replace('"', " ").replace(",", " ").split()) for p in parts):
            return True
    return False


def coq_check(out, scratch):
    """compile the regenerated tables + GenFactsOK.v in a scratch tree; -> (ok, message)"""
    if os.path.exists(scratch):
        shutil.rmtree(scratch)
    os.makedirs(os.path.join(scratch, "theories", "gen"))
    os.makedirs(os.path.join(scratch, "theories", "proofs"))
    for fn in ("StateFields.v", "StoreSites.v", "OrderSources.v"):
        shutil.copy(os.path.join(out, fn), os.path.join(scratch, "theories", "gen", fn))
    shutil.copy(os.path.join(VERIF, "coq", "theories", "proofs", "GenFactsOK.v"), os.path.join(scratch, "theories", "proofs"))
    for f in ("theories/gen/StateFields.v", "theories/gen/StoreSites.v", "theories/gen/OrderSources.v", "theories/proofs/GenFactsOK.v"):
        r = subprocess.run(["coqc", "-Q", "theories", "AC", f], cwd=scratch, capture_output=True, text=True, timeout=900)
        if r.returncode != 0:
            msg = (r.stderr or r.stdout).strip().splitlines()
            loc = msg[0] if msg else ""
            m = re.search(r"line (\d+)", loc)
            thm = ""
            if m and f.endswith("GenFactsOK.v"):
                lines = open(os.path.join(scratch, f)).read().splitlines()
                for i in range(int(m.group(1)) - 1, -1, -1):
                    mm = re.match(r"\s*(Theorem|Lemma)\s+(\w+)", lines[i])
                    if mm:
                        thm = mm.group(2)
                        break
            return False, "%s fails%s" % (os.path.basename(f), (" at " + thm) if thm else "")
    return True, "all obligations hold"


# ------------------------------------------------------------------------------------------------
#  mutations: (name, what, apply(repo), expect(rc, msg, base, new) -> (ok, detail), coq expectation)
#  coq expectation: "fail" (some obligation must fail), "pass", or None (translator error, nothing to compile)
# ------------------------------------------------------------------------------------------------
def new_rows(base, new, name):
    b = list(base.get(name, []))
    out = []
    for r in new.get(name, []):
        if r in b:
            b.remove(r)
        else:
            out.append(r)
    return out


def lost_rows(base, new, name):
    return new_rows(new, base, name)


def expect_new_site(*parts, also=None):
    def chk(rc, msg, base, new):
        if rc != 0:
            return False, "translator failed: " + msg[:120]
        rows = new_rows(base, new, "store_sites")
        hit = [r for r in rows if all(('"%s"' % p) in r or p in r.replace(",", " ").split() for p in parts)]
        if not hit:
            return False, "no new store_sites row with %s (new rows: %s)" % (parts, rows[:3])
        if also:
            ok, d = also(rc, msg, base, new)
            if not ok:
                return False, d
        return True, "store_sites +%d: %s" % (len(rows), hit[0])
    return chk


def expect_error(*words):
    def chk(rc, msg, base, new):
        if rc == 0:
            return False, "translator accepted the input"
        if "TRANSLATOR-ERROR" not in msg:
            return False, "no TRANSLATOR-ERROR line: " + msg[-160:]
        miss = [w for w in words if w not in msg]
        if miss:
            return False, "message does not name %s: %s" % (miss, msg[-200:])
        return True, "exit %d: %s" % (rc, msg.splitlines()[-1][:110])
    return chk


def expect_unchanged(rc, msg, base, new):
    if rc != 0:
        return False, "translator failed: " + msg[:120]
    diff = [k for k in set(base) | set(new) if base.get(k) != new.get(k)]
    return (not diff), ("tables identical" if not diff else "tables differ: %s" % diff)


def m_prof_store(repo):
    edit(repo, "aquacrop/solution/drainage.py", "\n    drainsum = 0\n", "\n    prof.th_s[0] = 0.5\n    drainsum = 0\n")


def m_alias_chain(repo):
    edit(repo, "aquacrop/solution/drainage.py", "\n    drainsum = 0\n",
         "\n    p2 = prof\n    (arr, other) = (p2.Ksat, 1)\n    view = arr[1:]\n    view[0] = 0.0\n    drainsum = 0\n")


def m_module_cache(repo):
    rel = "aquacrop/initialize/compute_variables.py"
    edit(repo, rel, "def compute_variables(", "_CROP_CACHE = {}\n\n\ndef compute_variables(")
    edit(repo, rel, "    if param_struct.Soil.calc_cn == 1:\n",
         "    _CROP_CACHE[param_struct.NCrops] = param_struct.CropList\n    if param_struct.Soil.calc_cn == 1:\n")


def chk_module_cache(rc, msg, base, new):
    if not has_row(new, "module_level_mutables", "_CROP_CACHE"):
        return False, "module_level_mutables lacks _CROP_CACHE"
    if not new_rows(base, new, "global_store_sites"):
        return False, "global_store_sites unchanged"
    return True, ""


def m_mutable_default(repo):
    append(repo, "aquacrop/utils/prepare_weather.py", "\n\ndef remember(x, acc=[]):\n    acc.append(x)\n    return acc\n")


def chk_mutable_default(rc, msg, base, new):
    if not has_row(new, "mutable_defaults", "remember", "acc"):
        return False, "mutable_defaults lacks (remember, acc)"
    return True, ""


def m_drop_reset(repo):
    edit(repo, "aquacrop/timestep/reset_initial_conditions.py", "    InitCond.irr_cum = 0\n", "")


def chk_drop_reset(rc, msg, base, new):
    if rc != 0:
        return False, "translator failed: " + msg[:120]
    lost = lost_rows(base, new, "reset_fields")
    if lost != ['"irr_cum"']:
        return False, "reset_fields lost %s" % lost
    if new.get("state_fields") != base.get("state_fields"):
        return False, "state_fields changed"
    return True, "reset_fields -1: irr_cum (also gone from reset_fields_unconditional: %s)" % (
        '"irr_cum"' in lost_rows(base, new, "reset_fields_unconditional"))


def m_new_field(repo):
    edit(repo, "aquacrop/entities/initParamVariables.py", "        self.irr_cum = 0\n",
         "        self.irr_cum = 0\n        self.irr_events = 0\n")


def chk_new_field(rc, msg, base, new):
    if rc != 0:
        return False, "translator failed: " + msg[:120]
    got = new_rows(base, new, "state_fields")
    if got != ['"irr_events"']:
        return False, "state_fields gained %s" % got
    return True, "state_fields +1: irr_events (after irr_cum: %s)" % (
        new["state_fields"].index('"irr_events"') == new["state_fields"].index('"irr_cum"') + 1)


def m_global_stmt(repo):
    edit(repo, "aquacrop/solution/growth_stage.py", "    NewCond = InitCond\n", "    global _LAST\n    _LAST = InitCond\n    NewCond = InitCond\n")


def m_exec(repo):
    edit(repo, "aquacrop/timestep/update_time.py", "    # Update time\n", "    exec('clock_struct.season_counter = 0')\n    # Update time\n")


def m_loc_store(repo):
    edit(repo, "aquacrop/timestep/run_single_timestep.py", "    # Unpack structures\n",
         "    param_struct.Soil.profile.loc[0, 'th_s'] = 0.4\n    # Unpack structures\n")


def m_setattr(repo):
    edit(repo, "aquacrop/solution/root_development.py", "    Zroot_init = float(NewCond_Zroot) * 1.0\n",
         "    setattr(Crop, 'Zmin', 0.1)\n    Zroot_init = float(NewCond_Zroot) * 1.0\n")


def m_weather_store(repo):
    edit(repo, "aquacrop/timestep/reset_initial_conditions.py", "        # Extract weather data for upcoming growing season\n",
         "        weather[:, 2].fill(0.0)\n        # Extract weather data for upcoming growing season\n")


def m_weather_unguarded(repo):
    edit(repo, "aquacrop/timestep/reset_initial_conditions.py", "    # Reset counters\n",
         "    n_days = len(weather)\n    # Reset counters\n")


def m_returned_alias(repo):
    # the callee returns its argument: the result must alias it
    edit(repo, "aquacrop/timestep/run_single_timestep.py", "    # 10. Update growth stage\n",
         "    Soil2, _unused = _passthrough(Soil, 1)\n    Soil2.Profile.dz[0] = 0.2\n    # 10. Update growth stage\n")
    append(repo, "aquacrop/timestep/run_single_timestep.py", "\n\ndef _passthrough(a, b):\n    c = a\n    return c, b\n")


def m_dict_write(repo):
    edit(repo, "aquacrop/solution/growth_stage.py", "    NewCond = InitCond\n", "    Crop.__dict__.update(Zmin=0.1)\n    NewCond = InitCond\n")


def m_init_shape(repo):
    edit(repo, "aquacrop/entities/initParamVariables.py", "        self.irr_cum = 0\n",
         "        self.irr_cum = 0\n        if num_comp > 3:\n            self.deep = True\n")


def m_refactor(repo):
    # semantics-preserving: tuple assignment in the reset, a comment and a renamed local elsewhere
    edit(repo, "aquacrop/timestep/reset_initial_conditions.py", "    InitCond.age_days = 0\n    InitCond.age_days_ns = 0\n",
         "    InitCond.age_days, InitCond.age_days_ns = 0, 0\n")
    edit(repo, "aquacrop/solution/drainage.py", "\n    drainsum = 0\n", "\n    # no store here\n    drainsum = 0\n")


def chk_refactor(rc, msg, base, new):
    if rc != 0:
        return False, "translator failed: " + msg[:120]
    for k in ("state_fields", "reset_fields", "reset_crop_fields", "module_level_mutables", "mutable_defaults"):
        if base.get(k) != new.get(k):
            return False, "%s changed" % k
    if sorted(base.get("store_sites", [])) != sorted(new.get("store_sites", [])):
        return False, "store_sites changed"
    return True, "reset_fields / store_sites unchanged by a tuple assignment + comment"


def m_method_mutation(repo):
    # a package method that writes through self, called on the soil from a process
    edit(repo, "aquacrop/solution/germination.py", "    NewCond = InitCond\n", "    prof.fill_nan()\n    NewCond = InitCond\n")


def m_unknown_stmt(repo):
    edit(repo, "aquacrop/solution/growth_stage.py", "    NewCond = InitCond\n",
         "    match growing_season:\n        case True:\n            pass\n        case _:\n            pass\n    NewCond = InitCond\n")


def m_set_order(repo):
    edit(repo, "aquacrop/initialize/read_groundwater_table.py", "import numpy as np", "import numpy as np\n_SEEN = sorted(set(['a', 'b']))")


def chk_set_order(rc, msg, base, new):
    if rc != 0:
        return False, "translator failed: " + msg[:120]
    rows = new_rows(base, new, "order_sources")
    hit = [r for r in rows if "read_groundwater_table" in r and "set()" in r]
    return bool(hit), ("order_sources +%d: %s" % (len(rows), hit[0]) if hit else "no new order_sources row (%s)" % rows[:3])


def m_hash_call(repo):
    append(repo, "aquacrop/solution/growth_stage.py", "\nimport random as _rnd\n_J = _rnd.random() + hash('x')\n")


def chk_hash_call(rc, msg, base, new):
    if rc != 0:
        return False, "translator failed: " + msg[:120]
    rows = new_rows(base, new, "order_sources")
    ok = any("hash()" in r for r in rows) and any('"random' in r for r in rows)
    return ok, "order_sources +%d: %s" % (len(rows), rows[:2])


MUTATIONS = [
    ("prof_store", "prof.th_s[0] = 0.5 inside drainage", m_prof_store,
     expect_new_site("aquacrop.solution.drainage", "prof", "th_s", "AttrIndex"), "fail"),
    ("alias_chain", "p2 = prof; (arr, _) = (p2.Ksat, 1); view = arr[1:]; view[0] = 0 in drainage", m_alias_chain,
     expect_new_site("aquacrop.solution.drainage", "prof", "Index"), "fail"),
    ("module_cache", "module-level dict cache written in compute_variables", m_module_cache,
     expect_new_site("aquacrop.initialize.compute_variables", "_CROP_CACHE", "Index", also=chk_module_cache), "fail"),
    ("mutable_default", "def remember(x, acc=[]): acc.append(x) in utils/prepare_weather.py", m_mutable_default,
     expect_new_site("aquacrop.utils.prepare_weather", "remember", "acc", "MutCall", also=chk_mutable_default), "fail"),
    ("drop_reset", "remove InitCond.irr_cum = 0 from reset_initial_conditions", m_drop_reset, chk_drop_reset, "fail"),
    ("new_field", "new field self.irr_events in InitialCondition.__init__", m_new_field, chk_new_field, "fail"),
    ("global_stmt", "global statement in growth_stage", m_global_stmt, expect_error("global", "growth_stage"), None),
    ("exec_call", "exec(...) in update_time", m_exec, expect_error("exec", "update_time"), None),
    ("loc_store", "param_struct.Soil.profile.loc[0,'th_s'] = 0.4 in solution_single_time_step", m_loc_store,
     expect_new_site("aquacrop.timestep.run_single_timestep", "param_struct", "profile", "LocIndex"), "fail"),
    ("setattr", "setattr(Crop, 'Zmin', 0.1) in root_development", m_setattr,
     expect_new_site("aquacrop.solution.root_development", "Crop", "Zmin", "SetAttr"), "fail"),
    ("weather_store", "weather[:, 2].fill(0.0) in reset_initial_conditions", m_weather_store,
     expect_new_site("aquacrop.timestep.reset_initial_conditions", "weather", "MutCall"), "fail"),
    ("weather_unguarded", "reset_initial_conditions reads weather outside `if crop.CalendarType == 2`", m_weather_unguarded,
     expect_error("weather", "guards"), None),
    ("returned_alias", "Soil2, _ = _passthrough(Soil, 1); Soil2.Profile.dz[0] = 0.2 (callee returns its argument)",
     m_returned_alias, expect_new_site("aquacrop.timestep.run_single_timestep", "param_struct", "dz", "AttrIndex"), "fail"),
    ("method_mutation", "prof.fill_nan() (package method writing through self) in germination", m_method_mutation,
     expect_new_site("aquacrop.solution.germination", "prof", "MutCall"), "fail"),
    ("dict_write", "Crop.__dict__.update(...) on a non-self object", m_dict_write, expect_error("__dict__", "growth_stage"), None),
    ("init_shape", "conditional field in InitialCondition.__init__", m_init_shape, expect_error("InitialCondition.__init__", "If"), None),
    ("unknown_stmt", "match statement in growth_stage (construct without a pattern)", m_unknown_stmt,
     expect_error("Match", "growth_stage"), None),
    ("set_order", "sorted(set([...])) at module level of read_groundwater_table (hash-seed dependent order)", m_set_order, chk_set_order, "fail"),
    ("hash_call", "random.random() + hash('x') in growth_stage", m_hash_call, chk_hash_call, "fail"),
    ("refactor", "control: tuple assignment in the reset + a comment (no semantic change)", m_refactor, chk_refactor, "pass"),
]


def main():
    args = sys.argv[1:]
    with_coq = "--coq" in args
    keep = "--keep" in args
    only = None
    if "--only" in args:
        only = args[args.index("--only") + 1].split(",")
    results = []
    t0 = time.time()
    try:
        if os.path.exists(BASE):
            shutil.rmtree(BASE)
        os.makedirs(BASE)
        base_repo = os.path.join(BASE, "repo_base")
        copy_repo(base_repo)
        base_out = os.path.join(BASE, "out_base")
        rc, msg = run_gen(base_repo, base_out)
        if rc != 0:
            print("baseline translation failed: " + msg)
            return 2
        base = tables(base_out)
        ok = all(k in base and base[k] for k in ("state_fields", "reset_fields", "store_sites", "mutable_defaults"))
        results.append(("baseline", "unmodified copy of the package", ok,
                        "state_fields %d, reset_fields %d, store_sites %d, module_level_mutables %d, mutable_defaults %d" % tuple(
                            len(base.get(k, [])) for k in ("state_fields", "reset_fields", "store_sites", "module_level_mutables",
                                                           "mutable_defaults")), None))
        # same tables as the ones generated from SRC_REPO into the development tree (the copy is faithful)
        dev = tables(os.path.join(VERIF, "coq", "theories", "gen"))
        if dev:
            same = all(dev.get(k) == base.get(k) for k in base)
            results.append(("copy_faithful", "tables from the copy == tables in coq/theories/gen", same,
                            "identical" if same else "differ (run gen_facts.py first?)", None))
        # idempotence: a second run must not rewrite anything
        mt = {f: os.stat(os.path.join(base_out, f)).st_mtime_ns for f in os.listdir(base_out)}
        time.sleep(0.05)
        rc2, msg2 = run_gen(base_repo, base_out)
        mt2 = {f: os.stat(os.path.join(base_out, f)).st_mtime_ns for f in os.listdir(base_out)}
        results.append(("no_rewrite", "second run on unchanged sources leaves every output file untouched",
                        rc2 == 0 and mt == mt2 and "rewritten" not in msg2, "mtimes equal: %s" % (mt == mt2), None))
        if with_coq and (only is None or "baseline" in only):
            okc, d = coq_check(base_out, os.path.join(BASE, "coq_base"))
            results.append(("baseline_coq", "GenFactsOK.v over the baseline tables", okc, d, None))

        for (name, what, apply, expect, coq_exp) in MUTATIONS:
            if only is not None and name not in only:
                continue
            repo = os.path.join(BASE, "repo_" + name)
            out = os.path.join(BASE, "out_" + name)
            copy_repo(repo)
            try:
                apply(repo)
            except RuntimeError as e:
                results.append((name, what, False, str(e), None))
                continue
            rc, msg = run_gen(repo, out)
            new = tables(out) if rc == 0 else {}
            if rc != 0 and os.path.exists(out) and os.listdir(out):
                results.append((name, what, False, "translator failed but wrote %s" % os.listdir(out), None))
                continue
            ok, detail = expect(rc, msg, base, new)
            coq_res = None
            if with_coq and ok and coq_exp is not None and rc == 0:
                okc, d = coq_check(out, os.path.join(BASE, "coq_" + name))
                coq_res = (okc == (coq_exp == "pass"), ("expected %s; " % coq_exp) + d)
            results.append((name, what, ok, detail, coq_res))
            shutil.rmtree(repo, ignore_errors=True)
    finally:
        if not keep:
            shutil.rmtree(BASE, ignore_errors=True)

    w = max(len(r[0]) for r in results)
    print("%-*s  %-4s  %s" % (w, "test", "res", "detail"))
    print("-" * (w + 90))
    bad = 0
    for (name, what, ok, detail, coq_res) in results:
        print("%-*s  %-4s  %s" % (w, name, "PASS" if ok else "FAIL", what))
        print("%-*s        -> %s" % (w, "", detail))
        if coq_res is not None:
            print("%-*s  %-4s  coq: %s" % (w, "", "PASS" if coq_res[0] else "FAIL", coq_res[1]))
            if not coq_res[0]:
                bad += 1
        if not ok:
            bad += 1
    print("-" * (w + 90))
    print("%d checks, %d failed, %.1f s%s" % (len(results) + sum(1 for r in results if r[4] is not None), bad, time.time() - t0,
                                             "" if keep else " (/tmp/genfacts_test removed)"))
    return 0 if bad == 0 else 1


if __name__ == "__main__":
    sys.exit(main())
