#!/usr/bin/env python3
"""confirm_seeded.py <worktree> <seeded id> [Cnn ...] : run try_seeded.sh for seeded/<id>, record the outcome in its meta.json.
The property checked defaults to meta['property']."""
import json, os, re, subprocess, sys
wt, sid = sys.argv[1], sys.argv[2]
d = "/verif/seeded/" + sid
meta = json.load(open(d + "/meta.json"))
props = sys.argv[3:] or [meta["property"]]
out = subprocess.run(["/verif/harness/tools/try_seeded.sh", wt, d] + props, capture_output=True, text=True).stdout
print(out)
clean = re.search(r"\[clean demo\] (.*) rc=(\d+)", out)
tests = re.search(r"\[tests\] (.*)", out)
pd = re.search(r"\[patched demo rc=(\d+)\]", out)
meta["confirmed_by_lead"] = {
    "tests_pass_with_change": bool(tests and re.search(r"\b33 passed", tests.group(1)) and "failed" not in tests.group(1)),
    "demo_passes_on_unchanged_tree": bool(clean and "PASS" in clean.group(1).upper() and "FAIL" not in clean.group(1).upper()),
    "demo_fails_with_change": bool(pd and pd.group(1) != "0"),
}
res = []
for m in re.finditer(r"\[check (C\d+)\] exit=(\d+) (.*)", out):
    res.append({"check": m.group(1), "exit": int(m.group(2)), "line": m.group(3).strip()})
meta["check_result"] = res[0] if len(res) == 1 else res
meta["first_signals"] = [l.strip()[:230] for l in out.split("\n") if l.startswith("  - ")][:4]
meta["what_was_run"] = ("harness/tools/confirm_seeded.py <scratch worktree> %s %s  (tests + demo in the worktree with and without the patch; "
                        "quick check from an isolated copy of /verif with VERIF_REPO=<worktree with the patch applied>)" % (sid, " ".join(props)))
json.dump(meta, open(d + "/meta.json", "w"), indent=1)
