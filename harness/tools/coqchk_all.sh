#!/bin/bash
# coqchk_all.sh — run Coq's independent checker over EVERY pinned property file of the current build (and so over the whole development they
# depend on) without a time budget, and store the result in coq/.coqchk/ keyed by the content hash of the compiled files; the thorough tier
# of every check then reports coqchk's verdict from there.  Single-threaded; one to two hours for the development as it stands.
V="$(cd "$(dirname "$0")/../.." && pwd)"
cd "$V"
export PYTHONHASHSEED=0 PYTHONPATH=$V/harness:${VERIF_REPO:-/repo} VERIF_COQCHK_BUDGET=${VERIF_COQCHK_BUDGET:-28000}
exec /venv/bin/python -W ignore - <<'PY'
import glob, os, json, sys
import runner
files = sorted(os.path.basename(f) for f in glob.glob(os.path.join(runner.COQDIR, "theories", "Properties", "C*.v")))
r = runner.run_coqchk(files)
print(json.dumps({k: v for k, v in r.items() if k != "axioms_of_all_loaded_libraries"}, indent=1)[:3000])
print("axioms of all loaded libraries:", len(r.get("axioms_of_all_loaded_libraries", [])))
sys.exit(0 if r["ok"] and r.get("completed") else 1)
PY
