#!/usr/bin/env python3
"""import_mut.py <Cnn> [...] : take the deliverables of an independent defect-seeding sub-agent (/var/tmp/mw/out-Cnn/{A,B}.{diff,json},
{A,B}_demo.py) into /verif/seeded/Cnn-m<k>/ (patch.diff, demo.py, meta.json) and confirm each with confirm_seeded.py."""
import glob, json, os, re, shutil, subprocess, sys
WT = os.environ.get("MUT_WT", "/var/tmp/wt1")
for pid in sys.argv[1:]:
    out = "/var/tmp/mw/%s-%s" % (os.environ.get("MUT_OUT", "out"), pid)
    for tag in ("A", "B"):
        if not (os.path.exists("%s/%s.diff" % (out, tag)) and os.path.exists("%s/%s_demo.py" % (out, tag))):
            print(pid, tag, "missing deliverables"); continue
        marker = "%s/%s.imported" % (out, tag)
        if os.path.exists(marker):
            continue
        k = 1
        while os.path.exists("/verif/seeded/%s-m%d" % (pid, k)):
            k += 1
        sid = "%s-m%d" % (pid, k); d = "/verif/seeded/" + sid
        os.makedirs(d)
        shutil.copy("%s/%s.diff" % (out, tag), d + "/patch.diff")
        demo = open("%s/%s_demo.py" % (out, tag)).read()
        open(d + "/demo.py", "w").write(demo)
        try:
            j = json.load(open("%s/%s.json" % (out, tag)))
        except Exception:
            j = {}
        meta = {"property": pid, "summary": j.get("summary", ""), "needs_to_manifest": j.get("needs_to_manifest", ""),
                "files_changed": j.get("files_changed", []), "round": int(os.environ.get("MUT_ROUND", "2")),
                "author": "independent sub-agent given only the property text and a scratch worktree (asked for changes that need something specific to manifest)"}
        json.dump(meta, open(d + "/meta.json", "w"), indent=1)
        open(marker, "w").write(sid)
        r = subprocess.run(["/verif/harness/tools/confirm_seeded.py", WT, sid], capture_output=True, text=True)
        lines = [l for l in r.stdout.split("\n") if l.startswith("[")]
        print("==", sid, "|", " ".join(l[:150] for l in lines))
        sys.stdout.flush()
