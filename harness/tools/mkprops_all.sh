#!/bin/bash
# regenerate the pinned property files (run by hand after theorems were added; the result is committed)
cd /verif/coq
MK="python3 /verif/harness/tools/mkprops.py"
BASE='From Coq Require Import Reals ZArith List Bool Lra.
From AC Require Import Num RInst Params Kernels.
Import ListNotations.
Local Open Scope R_scope.'
W="$BASE
From AC.Water Require Import RootZone RainIrr Infiltration Drainage Groundwater Evaporation.
From AC.Crop Require Import Roots.
From AC.proofs Require Import ProfR RootZoneR RainIrrR InfiltrationR DrainageR GroundwaterR EvaporationR RootsR."
WT="$W"
[ -f theories/proofs/TranspirationR.vo ] && WT="$W
From AC.Water Require Import Transpiration.
From AC.proofs Require Import TranspirationR."
TR01=""; TR03=""; TR04=""
if [ -f theories/proofs/TranspirationR.vo ]; then
  TR01=$(grep -o "^Theorem transpiration_balance\b" theories/proofs/TranspirationR.v | head -1 | sed 's/Theorem /TranspirationR./')
  TR03=$(grep -o "^Theorem transpiration_bounds\b" theories/proofs/TranspirationR.v | head -1 | sed 's/Theorem /TranspirationR./')
  TR04=$(grep -o "^Theorem \(tr_le_pot\|trpot_nonneg\|transp_off_season_zero\|irrnet_nonneg\)\b" theories/proofs/TranspirationR.v | sed 's/Theorem /TranspirationR./' | tr '\n' ' ')
fi
case "$1" in
C01|all) $MK C01 "C01 — daily soil-water balance closes: per-process conservation over exact reals, profiles of any length (models Water/*.v, Crop/Roots.v pre_irrigation).  The composition over one day is C01_day_balance (proofs/DayP.v) when present." "$WT" \
  DrainageR.drainage_balance DrainageR.drainage_balance_refuted InfiltrationR.infiltration_balance EvaporationR.evaporation_balance GroundwaterR.capillary_balance GroundwaterR.gw_inflow_balance RootsR.pre_irrigation_balance $TR01 ;;&
C02|all) $MK C02 "C02 — rain and irrigation are fully partitioned at the surface (models Water/RainIrr.v rainfall_partition, Water/Infiltration.v)." "$W" \
  RainIrrR.cn_adjusted_le_100 RainIrrR.scs_split RainIrrR.rp_bunds_no_runoff RainIrrR.rp_dry_day RainIrrR.scs_split_needs_cn_le_100 InfiltrationR.surface_identity InfiltrationR.runoff_lower InfiltrationR.runoff_bounds InfiltrationR.infl_lower InfiltrationR.infl_negative_only_without_bunds InfiltrationR.infl_negative_bund_removal InfiltrationR.dry_day=infiltration_dry_day InfiltrationR.deep_perc_nonneg_refuted=flux_ok_needed_refuted DrainageR.drainage_flux_le_ksat ;;&
C03|all) $MK C03 "C03 — soil water content and ponding stay within physical limits: in_bounds is preserved by every water process (any profile length), ponding within [0, bund height], reported root-zone storage non-negative." "$WT" \
  DrainageR.drainage_bounds InfiltrationR.infiltration_bounds EvaporationR.evaporation_bounds EvaporationR.evaporation_surface_bounds GroundwaterR.capillary_in_bounds_eps GroundwaterR.capillary_in_bounds GroundwaterR.capillary_in_bounds_refuted GroundwaterR.gw_inflow_in_bounds RootsR.pre_irrigation_bounds RootZoneR.root_zone_water_nonneg $TR03 ;;&
C04|all) $MK C04 "C04 — fluxes are non-negative and actual never exceeds potential (per-process sign/order theorems over exact reals)." "$WT" \
  RainIrrR.irr_nonneg RainIrrR.irr_off_season_zero RainIrrR.scs_split=runoff_nonneg_split InfiltrationR.runoff_lower=infiltration_runoff_nonneg InfiltrationR.deep_perc_nonneg=infiltration_deep_perc_nonneg DrainageR.drainage_deep_perc_nonneg DrainageR.drainage_flux_nonneg GroundwaterR.cr_nonneg GroundwaterR.gwin_nonneg EvaporationR.es_le_pot EvaporationR.espot_nonneg EvaporationR.es_invariant $TR04 ;;&
esac
