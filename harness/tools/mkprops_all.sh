#!/bin/bash
# regenerate the pinned property files (run by hand after theorems were added; the result is committed)
cd /verif/coq
MK="python3 /verif/harness/tools/mkprops.py"
BASE='From Coq Require Import Reals ZArith List Bool Lra.
From AC Require Import Num RInst Params Kernels.
Import ListNotations.
Local Open Scope R_scope.'
W="$BASE
From AC.Water Require Import RootZone RainIrr Infiltration Drainage Groundwater Evaporation.
From AC.Crop Require Import Roots.
From AC.proofs Require Import ProfR RootZoneR RainIrrR InfiltrationR DrainageR GroundwaterR EvaporationR RootsR."
WT="$W"
[ -f theories/proofs/TranspirationR.vo ] && WT="$W
From AC.Water Require Import Transpiration.
From AC.proofs Require Import TranspirationR."
TR01=""; TR03=""; TR04=""
if [ -f theories/proofs/TranspirationR.vo ]; then
  TR01=$(grep -o "^Theorem transpiration_balance\b" theories/proofs/TranspirationR.v | head -1 | sed 's/Theorem /TranspirationR./')
  TR03=$(grep -o "^Theorem transpiration_bounds\b" theories/proofs/TranspirationR.v | head -1 | sed 's/Theorem /TranspirationR./')
  TR04="TranspirationR.trpot_nonneg TranspirationR.tr_le_pot TranspirationR.off_season_zero=transpiration_off_season_zero TranspirationR.irrnet_lower TranspirationR.irrnet_nonneg_refuted"
fi
case "$1" in
C01|all) $MK C01 "C01 — daily soil-water balance closes: per-process conservation over exact reals, profiles of any length (models Water/*.v, Crop/Roots.v pre_irrigation).  The composition over one day is C01_day_balance (proofs/DayP.v) when present." "$WT" \
  DrainageR.drainage_balance DrainageR.drainage_balance_refuted InfiltrationR.infiltration_balance EvaporationR.evaporation_balance GroundwaterR.capillary_balance GroundwaterR.gw_inflow_balance RootsR.pre_irrigation_balance $TR01 ;;&
C02|all) $MK C02 "C02 — rain and irrigation are fully partitioned at the surface (models Water/RainIrr.v rainfall_partition, Water/Infiltration.v)." "$W" \
  RainIrrR.cn_adjusted_le_100 RainIrrR.scs_split RainIrrR.rp_bunds_no_runoff RainIrrR.rp_dry_day RainIrrR.scs_split_needs_cn_le_100 InfiltrationR.surface_identity InfiltrationR.runoff_lower InfiltrationR.runoff_bounds InfiltrationR.infl_lower InfiltrationR.infl_negative_only_without_bunds InfiltrationR.infl_negative_bund_removal InfiltrationR.dry_day=infiltration_dry_day InfiltrationR.deep_perc_nonneg_refuted=flux_ok_needed_refuted DrainageR.drainage_flux_le_ksat ;;&
C03|all) $MK C03 "C03 — soil water content and ponding stay within physical limits: in_bounds is preserved by every water process (any profile length), ponding within [0, bund height], reported root-zone storage non-negative." "$WT" \
  DrainageR.drainage_bounds InfiltrationR.infiltration_bounds EvaporationR.evaporation_bounds EvaporationR.evaporation_surface_bounds GroundwaterR.capillary_in_bounds_eps GroundwaterR.capillary_in_bounds GroundwaterR.capillary_in_bounds_refuted GroundwaterR.gw_inflow_in_bounds RootsR.pre_irrigation_bounds RootZoneR.root_zone_water_nonneg $TR03 ;;&
C04|all) $MK C04 "C04 — fluxes are non-negative and actual never exceeds potential (per-process sign/order theorems over exact reals)." "$WT" \
  RainIrrR.irr_nonneg RainIrrR.irr_off_season_zero RainIrrR.scs_split=runoff_nonneg_split InfiltrationR.runoff_lower=infiltration_runoff_nonneg InfiltrationR.deep_perc_nonneg=infiltration_deep_perc_nonneg DrainageR.drainage_deep_perc_nonneg DrainageR.drainage_flux_nonneg GroundwaterR.cr_nonneg GroundwaterR.gwin_nonneg EvaporationR.es_le_pot EvaporationR.espot_nonneg EvaporationR.es_invariant $TR04 ;;&
C05|all) $MK C05 "C05 — crop state stays inside its configured envelope: canopy (invariant over every assignment site, any sequence of days), roots (any profile incl. restrictive layers), harvest index, biomass (models Crop/Canopy.v, Crop/Roots.v, Crop/Yield.v; gdd range/monotonicity is C17's growing_degree_day)." "$BASE
From AC.Water Require Import RootZone.
From AC.Crop Require Import Canopy Roots Yield.
From AC.proofs Require Import ProfR KernelsR CanopyR RootsR YieldR." \
  CanopyR.canopy_inv_step CanopyR.canopy_inv_run CanopyR.cc_le_ns CanopyR.off_season_zero=canopy_off_season_zero CanopyR.ccx_act_le_refuted CanopyR.cc_ns_step_refuted \
  RootsR.root_range RootsR.root_monotone RootsR.root_first_day RootsR.root_above_table RootsR.root_off_season RootsR.root_range_weak_refuted RootsR.root_above_table_surface_refuted \
  YieldR.biomass_monotone YieldR.biomass_off_season YieldR.hi_ref_le_HI0 YieldR.hi_ref_nonneg YieldR.hi_ref_monotone YieldR.harvest_index_invariant YieldR.hi_core_invariant YieldR.hi_adj_le_refuted KernelsR.gdd_range KernelsR.gdd_monotone ;;&
C06|all) $MK C06 "C06 — yields and seasonal totals agree with the daily tables: biomass gain identity, yield identities (Crop/Yield.v); one summary row per harvested season, in season order, written on its harvest step from that day's state (Clock.v, for EVERY physics)." "$BASE
From AC Require Import Clock.
From AC.Crop Require Import Yield.
From AC.proofs Require Import YieldR ClockP." \
  YieldR.biomass_gain YieldR.biomass_defined YieldR.yield_identities ClockP.perform_sums_inv ClockP.run_steps_summary ClockP.perform_summary_row ClockP.init_model_inv ;;&
C08|all) $MK C08 "C08 — seasons are independent when the off-season is not simulated: the reset assigns every state field that is live at a season start (tables regenerated from /repo's source on every run by harness/gen_facts.py)." "From Coq Require Import String List Bool.
From AC.gen Require Import StateFields StoreSites.
From AC.proofs Require Import GenFactsOK.
Import ListNotations." \
  state_fields_nodup reset_fields_subset reset_fields_maybe_empty reset_guards_are_off_season reset_fields_covered reset_weather_guard_ok reset_crop_fields_whitelisted carried_fields_whitelisted carried_fields_whitelisted_strict thini_never_written ;;&
C10|all) $MK C10 "C10 — runs are deterministic and model instances are isolated (the part a theorem can carry): no store site of the package writes a module-level object, a default-argument object or a class attribute (store-site table regenerated from /repo's source on every run); the only constructs anywhere in the package whose value or iteration order can depend on the hash seed, the process, the clock or the environment are five enumerated, harmless ones (order_sources_exact over the regenerated OrderSources table)." "From Coq Require Import String List Bool.
From AC.gen Require Import StateFields StoreSites OrderSources.
From AC.proofs Require Import GenFactsOK.
Import ListNotations." \
  stores_allowed stores_allowed_In no_store_on_module_globals global_store_sites_exact no_store_on_default_args escaped_defaults_never_written_in_place table_sizes order_sources_exact ;;&
C12|all) $MK C12 "C12 — configured parameters and weather stay read-only while stepping: no store site in aquacrop.solution.* / aquacrop.timestep.* is rooted at the profile, soil, management, groundwater, weather or clock-date objects (enumerated exceptions: season-start crop calendar/CO2, clock counters); store-site table regenerated from /repo on every run." "From Coq Require Import String List Bool.
From AC.gen Require Import StateFields StoreSites.
From AC.proofs Require Import GenFactsOK.
Import ListNotations." \
  no_param_store_while_stepping stepping_roots_closed solution_stores_state_only state_stores_declared th_fc_Adj_only_reassigned reset_crop_fields_whitelisted stores_allowed ;;&
C16|all) $MK C16 "C16 — every valid configuration runs to completion with finite outputs (the part a theorem can carry): catalogue obligations over the crop table regenerated from /repo, exact classification of initialisation rejections, termination of the run loop and of the profile deepening, definedness (no modelled exception, no division by zero) of every process model under well-formedness." "$BASE
From AC Require Import Clock.
From AC.gen Require Import CropCatalogue.
From AC.Init Require Import Calendar SoilBuild.
From AC.Water Require Import RootZone RainIrr Infiltration Drainage Groundwater Evaporation Transpiration.
From AC.Crop Require Import Canopy Roots Yield.
From AC.proofs Require Import ProfR KernelsR CatalogueR ClockP CalendarP SoilBuildR RainIrrR InfiltrationR DrainageR GroundwaterR EvaporationR TranspirationR CanopyR YieldR." \
  CatalogueR.catalogue_row_ok17 CatalogueR.crop_catalogue_length YieldR.catalogue_yield_ok YieldR.catalogue_YldWC_refuted CalendarP.calendar_init_error_cases CalendarP.calendar_init_defined CalendarP.calendar_init_ok CalendarP.no_planting_date_refuted CalendarP.one_day_window_refuted ClockP.run_till_terminates ClockP.perform_ok SoilBuildR.deepen_terminates SoilBuildR.texture_ordered_refuted \
  DrainageR.drainage_defined InfiltrationR.infiltration_defined GroundwaterR.check_defined GroundwaterR.capillary_defined GroundwaterR.check_then_inflow_defined EvaporationR.soil_evaporation_defined TranspirationR.transpiration_defined YieldR.biomass_defined YieldR.harvest_index_defined CanopyR.canopy_cover_defined RainIrrR.rp_split_defined KernelsR.gdd_defined KernelsR.kst_defined ;;&
C18|all) $MK C18 "C18 — soil profile and initial water content are built as specified (model Init/SoilBuild.v: Soil / add_layer / add_layer_from_texture / fill_nan / deepening / initial water content; pandas operations are list functions tied by the Linit correspondence)." "$BASE
From AC.Init Require Import SoilBuild.
From AC.proofs Require Import ProfR SoilBuildR." \
  build_ordered build_wf_geometry build_layers_contiguous build_wf iwc_layer_spec iwc_layer_in_bounds iwc_in_bounds_refuted iwc_depth_spec deepen_reaches deepen_preserves deepen_terminates deepen_sums deepen_geometry_refuted texture_ordered_partial texture_ordered_refuted ;;&
C20|all) $MK C20 "C20 — disabled features and neutral settings are inert: two-configuration equalities on the process models." "$BASE
From AC.Init Require Import Calendar.
From AC.Water Require Import RootZone RainIrr Infiltration Evaporation.
From AC.Crop Require Import Roots.
From AC.proofs Require Import ProfR InertR EvaporationR RootsR RainIrrR CalendarP." \
  EvaporationR.mulch_neutral EvaporationR.mulch_off_inert EvaporationR.mulch_off_inert\' InertR.rainfall_partition_bunds_off_inert InertR.infiltration_bunds_off_inert InertR.irr_method_inert_0 InertR.irr_method_inert_1 InertR.irr_method_inert_2 InertR.irr_method_inert_3 InertR.irr_method_inert_4 InertR.irr_method_inert_5 InertR.irr_method_neutral InertR.irr_season_max0 InertR.infiltration_eff_inert RainIrrR.irr_rainfed_zero RainIrrR.irr_net_zero RootsR.pre_irrigation_inert CalendarP.default_harvest_explicit ;;&
C07|all) $MK C07_calendar "C07 (dates and season list) — the Gregorian day-number functions are mutually inverse and order-preserving for ALL integers; the season list computed at initialisation starts with the first configured planting day on or after the start date, continues in consecutive years, and always satisfies ClockP.wf_clock (the hypothesis of the clock theorems in C07.v).  Model Init/Calendar.v; no axioms." "From Coq Require Import ZArith List Bool Lia.
From AC Require Import Clock.
From AC.Init Require Import Calendar.
From AC.proofs Require Import ClockP CalendarP.
Import ListNotations.
Local Open Scope Z_scope." \
  civil_roundtrip civil_from_days_valid civil_roundtrip_valid date_order date_order_iff season_list_closed season_list_spec season_list_wf season_list_nonempty season_list_error_iff no_planting_iff n_steps_pos initial_season_counter_spec calendar_init_ok default_harvest_covers_maturity default_harvest_long_crop_refuted ;;&
C11|all) $MK C11 "C11 — inputs are not consumed by a run (the part a theorem can carry): the write-backs of initialisation into user objects are enumerated (store-site table regenerated from /repo), and initialising again from the written-back objects gives the same internal structures (weather binding, CO2, default harvest date)." "From Coq Require Import Reals ZArith String List Bool.
From AC Require Import Num RInst Params.
From AC.gen Require Import StateFields StoreSites.
From AC.Init Require Import Inputs Calendar.
From AC.proofs Require Import GenFactsOK InputsP CalendarP.
Import ListNotations." \
  GenFactsOK.stores_allowed GenFactsOK.stores_allowed_In GenFactsOK.escaped_defaults_never_written_in_place GenFactsOK.no_store_on_default_args InputsP.init_idempotent_weather InputsP.bind_as_table InputsP.bind_dates_in_window InputsP.co2_init_idempotent CalendarP.default_harvest_explicit ;;&
C14|all) $MK C14_inputs "C14 (weather records outside the window) — binding the weather table to the window depends only on the rows inside the window." "From Coq Require Import Reals ZArith List Bool.
From AC Require Import Num RInst Params.
From AC.Init Require Import Inputs Calendar.
From AC.proofs Require Import InputsP CalendarP.
Import ListNotations." \
  InputsP.bind_extra_rows InputsP.bind_ok_spec InputsP.bind_positional CalendarP.clip_weather_In CalendarP.clip_weather_all ;;&
C15|all) $MK C15 "C15 — weather is bound by date and by column name (model Init/Inputs.v: clip by the Date column, select the five columns by name, step k reads row k); holds for every number type." "From Coq Require Import Reals ZArith List Bool.
From AC Require Import Num RInst Params.
From AC.Init Require Import Inputs.
From AC.proofs Require Import InputsP.
Import ListNotations." \
  bind_perm bind_extra_col bind_reindex bind_extra_rows bind_ok_spec bind_positional bind_by_date bind_by_date_length ;;&
C13|all) $MK C13 "C13 — irrigation strategies honour their contracts (model: Water/RainIrr.v irrigation, growth_stage; Water/Transpiration.v for the net-irrigation requirement; real-number instance)." "$BASE
From AC.Water Require Import RootZone RainIrr Transpiration.
From AC.proofs Require Import ProfR RainIrrR TranspirationR." \
  RainIrrR.irr_nonneg RainIrrR.irr_rainfed_zero RainIrrR.irr_off_season_zero RainIrrR.irr_net_zero RainIrrR.irr_daily_cap RainIrrR.irr_season_cap RainIrrR.irr_season_cap_in_season RainIrrR.irr_cum_update RainIrrR.irr_interval_days RainIrrR.irr_interval_amount RainIrrR.irr_schedule_exact RainIrrR.irr_constant_depth RainIrrR.irr_smt_spec RainIrrR.irr_smt_only_if RainIrrR.irr_smt_if RainIrrR.irr_smt_amount RainIrrR.irr_depletion_spec RainIrrR.growth_stage_range TranspirationR.irrnet_lower TranspirationR.irrnet_nonneg_refuted TranspirationR.off_season_zero=transpiration_off_season_zero
$MK C13_schedule "C13 (schedule) — the dated irrigation schedule is re-indexed onto the simulation days exactly: day s+i gets the depth scheduled for that date, 0 otherwise; dates outside the window are dropped." "From Coq Require Import Reals ZArith List Bool.
From AC Require Import Num RInst Params.
From AC.Init Require Import Inputs.
From AC.proofs Require Import InputsP.
Import ListNotations." \
  schedule_reindex_ok_iff schedule_reindex_spec schedule_outside_dropped irr_schedule_other ;;&
C19|all) $MK C19 "C19 — shallow groundwater behaves consistently (model: Water/Groundwater.v = check_groundwater_table, capillary_rise, groundwater_inflow; real-number instance; profiles of any length).  The daily water-table series is C19_series.v." "$BASE
From AC.Water Require Import Groundwater.
From AC.proofs Require Import ProfR GroundwaterR." \
  fcadj_range fcadj_range_table fcadj_far fcadj_loop_pointwise fcadj_early_exit_not_pointwise no_table check_defined gw_inflow_post gw_inflow_above gw_inflow_off gw_inflow_balance gwin_nonneg gw_inflow_in_bounds check_then_inflow_defined capillary_balance cr_nonneg cr_le_99 capillary_cap capillary_in_bounds_eps capillary_in_bounds capillary_in_bounds_refuted no_table_zero capillary_defined
$MK C19_series "C19 (water-table series) — the daily water-table depth follows the configured observations: step function (Constant) or linear interpolation by date between consecutive observations, first/last depth held outside them (Variable)." "From Coq Require Import Reals ZArith List Bool Sorted.
From AC Require Import Num RInst Params.
From AC.Init Require Import Inputs.
From AC.proofs Require Import InputsP.
Import ListNotations." \
  gw_constant_spec obs_sorted_lookup obs_sorted_sorted gw_series_variable gw_variable_on_obs gw_variable_before gw_variable_after gw_variable_between gw_variable_defined gw_variable_spec gw_series_range ;;&
DAY|all)
DAYREQ="From Coq Require Import Reals ZArith String List Bool.
From AC Require Import Num RInst Params Clock Day.
From AC.gen Require Import StateFields.
From AC.proofs Require Import ProfR GenFactsOK DayP.
Import ListNotations."
$MK C01_day "C01 (one day) — IF the processes satisfy their individual balance statements (the per-process theorems of C01.v, as hypotheses CallsBalance about that day's calls) THEN the rows written by the day's orchestration close the balance: change in storage + ponding = Infl + net irrigation + CRactual + GwIn - DeepPerc - Es - Tr.  Model Day.v (plumbing of run_single_timestep), for EVERY choice of the processes." "$DAYREQ" day_balance day_balance_all row_wiring
$MK C03_day "C03 (one day) — if every process preserves in_bounds and the ponding bound then so does the day, including every intermediate th/surf handed to a process (Day.v, every Procs)." "$DAYREQ" day_bounds
$MK C04_day "C04/C05/C13 (off-season wiring) — outside a growing season the orchestration itself writes IrrDay = 0, DryYield = FreshYield = 0, gdd_cum = 0, dap = 0 and hands gs = false to every process (Day.v, every Procs)." "$DAYREQ" off_season_wiring day_step_off_season
$MK C06_day "C06 (rows and summary) — in the crop-growth row written by the day: DryYield = B/100*HIadj, FreshYield = DryYield/(YldWC/100), YieldPot = B_ns/100*HI; the summary row repeats exactly those values and the seasonal irrigation counter (Day.v, every Procs)." "$DAYREQ" DayP.yield_identities=row_yield_identities summary_values day_step_summary row_wiring
$MK C08_day "C08 (reset and dead fields) — the reset assigns exactly the fields of the regenerated reset list and leaves every other field unchanged; the first day of a season does not depend on the 19 carried fields that are blanked by proj (under four named per-process hypotheses) (Day.v)." "$DAYREQ" reset_fields_match reset_frame reset_restores_water start_season_clock proj_list_carried carried_ok_proj_or_live proj_frame day1_dead
DAYC="$DAYREQ
From AC.Crop Require Import Yield.
From AC Require Import DayConcrete.
From AC.proofs Require Import YieldR DayConcreteP."
$MK C01_concrete "C01 (one CONCRETE day) — Day.v's orchestration instantiated with the 19 unit process models (DayConcrete.v, bit-exact against real simulated days): under the day invariant DayInv alone, a defined day closes the water balance with the capillary-rise rounding allowance." "$DAYC" day_balance_concrete concrete_calls_balance day_proc_opt_total
$MK C03_concrete "C03 (one CONCRETE day) — under DayInv and the five named side conditions DaySide, a defined concrete day keeps water contents within [th_dry, th_s], ponding within [0, bund height in force], and re-establishes DayInv (so induction over days closes)." "$DAYC" day_bounds_concrete reset_inv_preserved
$MK C04_concrete "C04/C05 (off-season, CONCRETE day) — outside a growing season the concrete day reports zero transpiration, potential transpiration and irrigation, zero canopy, biomass, rooting depth, harvest index and yields." "$DAYC" off_season_concrete
$MK C12_day "C12 (frame) — the reset changes only the listed state fields; parameters, profile and weather are inputs of day_proc that do not occur in its result type." "$DAYREQ" reset_frame reset_frame_off_season reset_fields_match ;;&
esac
