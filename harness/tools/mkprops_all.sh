#!/bin/bash
# regenerate the pinned property files (run by hand after theorems were added; the result is committed)
cd /verif/coq
MK="python3 /verif/harness/tools/mkprops.py"
BASE='From Coq Require Import Reals ZArith List Bool Lra.
From AC Require Import Num RInst Params Kernels.
Import ListNotations.
Local Open Scope R_scope.'
W="$BASE
From AC.Water Require Import RootZone RainIrr Infiltration Drainage Groundwater Evaporation.
From AC.Crop Require Import Roots.
From AC.proofs Require Import ProfR RootZoneR RainIrrR InfiltrationR DrainageR GroundwaterR EvaporationR RootsR."
WT="$W"
[ -f theories/proofs/TranspirationR.vo ] && WT="$W
From AC.Water Require Import Transpiration.
From AC.proofs Require Import TranspirationR."
TR01=""; TR03=""; TR04=""
if [ -f theories/proofs/TranspirationR.vo ]; then
  TR01=$(grep -o "^Theorem transpiration_balance\b" theories/proofs/TranspirationR.v | head -1 | sed 's/Theorem /TranspirationR./')
  TR03=$(grep -o "^Theorem transpiration_bounds\b" theories/proofs/TranspirationR.v | head -1 | sed 's/Theorem /TranspirationR./')
  TR04=$(grep -o "^Theorem \(tr_le_pot\|trpot_nonneg\|transp_off_season_zero\|irrnet_nonneg\)\b" theories/proofs/TranspirationR.v | sed 's/Theorem /TranspirationR./' | tr '\n' ' ')
fi
case "$1" in
C01|all) $MK C01 "C01 — daily soil-water balance closes: per-process conservation over exact reals, profiles of any length (models Water/*.v, Crop/Roots.v pre_irrigation).  The composition over one day is C01_day_balance (proofs/DayP.v) when present." "$WT" \
  DrainageR.drainage_balance DrainageR.drainage_balance_refuted InfiltrationR.infiltration_balance EvaporationR.evaporation_balance GroundwaterR.capillary_balance GroundwaterR.gw_inflow_balance RootsR.pre_irrigation_balance $TR01 ;;&
C02|all) $MK C02 "C02 — rain and irrigation are fully partitioned at the surface (models Water/RainIrr.v rainfall_partition, Water/Infiltration.v)." "$W" \
  RainIrrR.cn_adjusted_le_100 RainIrrR.scs_split RainIrrR.rp_bunds_no_runoff RainIrrR.rp_dry_day RainIrrR.scs_split_needs_cn_le_100 InfiltrationR.surface_identity InfiltrationR.runoff_lower InfiltrationR.runoff_bounds InfiltrationR.infl_lower InfiltrationR.infl_negative_only_without_bunds InfiltrationR.infl_negative_bund_removal InfiltrationR.dry_day=infiltration_dry_day InfiltrationR.deep_perc_nonneg_refuted=flux_ok_needed_refuted DrainageR.drainage_flux_le_ksat ;;&
C03|all) $MK C03 "C03 — soil water content and ponding stay within physical limits: in_bounds is preserved by every water process (any profile length), ponding within [0, bund height], reported root-zone storage non-negative." "$WT" \
  DrainageR.drainage_bounds InfiltrationR.infiltration_bounds EvaporationR.evaporation_bounds EvaporationR.evaporation_surface_bounds GroundwaterR.capillary_in_bounds_eps GroundwaterR.capillary_in_bounds GroundwaterR.capillary_in_bounds_refuted GroundwaterR.gw_inflow_in_bounds RootsR.pre_irrigation_bounds RootZoneR.root_zone_water_nonneg $TR03 ;;&
C04|all) $MK C04 "C04 — fluxes are non-negative and actual never exceeds potential (per-process sign/order theorems over exact reals)." "$WT" \
  RainIrrR.irr_nonneg RainIrrR.irr_off_season_zero RainIrrR.scs_split=runoff_nonneg_split InfiltrationR.runoff_lower=infiltration_runoff_nonneg InfiltrationR.deep_perc_nonneg=infiltration_deep_perc_nonneg DrainageR.drainage_deep_perc_nonneg DrainageR.drainage_flux_nonneg GroundwaterR.cr_nonneg GroundwaterR.gwin_nonneg EvaporationR.es_le_pot EvaporationR.espot_nonneg EvaporationR.es_invariant $TR04 ;;&
C05|all) $MK C05 "C05 — crop state stays inside its configured envelope: canopy (invariant over every assignment site, any sequence of days), roots (any profile incl. restrictive layers), harvest index, biomass (models Crop/Canopy.v, Crop/Roots.v, Crop/Yield.v; gdd range/monotonicity is C17's growing_degree_day)." "$BASE
From AC.Water Require Import RootZone.
From AC.Crop Require Import Canopy Roots Yield.
From AC.proofs Require Import ProfR KernelsR CanopyR RootsR YieldR." \
  CanopyR.canopy_inv_step CanopyR.canopy_inv_run CanopyR.cc_le_ns CanopyR.off_season_zero=canopy_off_season_zero CanopyR.ccx_act_le_refuted CanopyR.cc_ns_step_refuted \
  RootsR.root_range RootsR.root_monotone RootsR.root_first_day RootsR.root_above_table RootsR.root_off_season RootsR.root_range_weak_refuted RootsR.root_above_table_surface_refuted \
  YieldR.biomass_monotone YieldR.biomass_off_season YieldR.hi_ref_le_HI0 YieldR.hi_ref_nonneg YieldR.hi_ref_monotone YieldR.harvest_index_invariant YieldR.hi_core_invariant YieldR.hi_adj_le_refuted KernelsR.gdd_range KernelsR.gdd_monotone ;;&
C06|all) $MK C06 "C06 — yields and seasonal totals agree with the daily tables: biomass gain identity, yield identities (Crop/Yield.v); one summary row per harvested season, in season order, written on its harvest step from that day's state (Clock.v, for EVERY physics)." "$BASE
From AC Require Import Clock.
From AC.Crop Require Import Yield.
From AC.proofs Require Import YieldR ClockP." \
  YieldR.biomass_gain YieldR.biomass_defined YieldR.yield_identities ClockP.perform_sums_inv ClockP.run_steps_summary ClockP.perform_summary_row ClockP.init_model_inv ;;&
C08|all) $MK C08 "C08 — seasons are independent when the off-season is not simulated: the reset assigns every state field that is live at a season start (tables regenerated from /repo's source on every run by harness/gen_facts.py)." "From Coq Require Import String List Bool.
From AC.gen Require Import StateFields StoreSites.
From AC.proofs Require Import GenFactsOK.
Import ListNotations." \
  state_fields_nodup reset_fields_subset reset_fields_maybe_empty reset_guards_are_off_season reset_fields_covered reset_weather_guard_ok reset_crop_fields_whitelisted carried_fields_whitelisted carried_fields_whitelisted_strict thini_never_written ;;&
C10|all) $MK C10 "C10 — runs are deterministic and model instances are isolated (the part a theorem can carry): no store site of the package writes a module-level object, a default-argument object or a class attribute (store-site table regenerated from /repo's source on every run)." "From Coq Require Import String List Bool.
From AC.gen Require Import StateFields StoreSites.
From AC.proofs Require Import GenFactsOK.
Import ListNotations." \
  stores_allowed stores_allowed_In no_store_on_module_globals global_store_sites_exact no_store_on_default_args escaped_defaults_never_written_in_place table_sizes ;;&
C12|all) $MK C12 "C12 — configured parameters and weather stay read-only while stepping: no store site in aquacrop.solution.* / aquacrop.timestep.* is rooted at the profile, soil, management, groundwater, weather or clock-date objects (enumerated exceptions: season-start crop calendar/CO2, clock counters); store-site table regenerated from /repo on every run." "From Coq Require Import String List Bool.
From AC.gen Require Import StateFields StoreSites.
From AC.proofs Require Import GenFactsOK.
Import ListNotations." \
  no_param_store_while_stepping stepping_roots_closed solution_stores_state_only state_stores_declared th_fc_Adj_only_reassigned reset_crop_fields_whitelisted stores_allowed ;;&
esac
