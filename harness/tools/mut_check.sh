#!/bin/bash
# mut_check.sh <repo worktree (patched)> <Cnn> [Cmm ...]
# runs the quick checks against a scratch worktree of /repo from an ISOLATED copy of /verif (so the regenerated facts,
# the rebuilt .vo files and the evidence of the mutated tree never touch /verif itself).  The copy lives in
# ${VERIF_MUT:-/var/tmp/verif_mut} and is refreshed (rsync) from /verif on every call.
wt=$1; shift
M=${VERIF_MUT:-/var/tmp/verif_mut}
mkdir -p $M
rsync -a --delete --exclude .git --exclude evidence --exclude replays --exclude .build.lock /verif/ $M/
mkdir -p $M/evidence $M/replays
for p in "$@"; do
  out=$(cd $M && VERIF_REPO=$wt ./check $p --tier quick 2>&1); rc=$?
  echo "[check $p] exit=$rc $(echo "$out" | grep -E '^(VIOLATION|OK )' | head -1 | cut -c1-170)"
  echo "$out" | grep -E '^  - |^KNOWN' | head -4 | cut -c1-230
done
