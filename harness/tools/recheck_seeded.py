#!/usr/bin/env python3
"""recheck_seeded.py [ids...] : re-run the property's quick check against every seeded change (patched scratch worktree, isolated copy of
/verif) and record the CURRENT verdict in seeded/<id>/meta.json under "recheck" (the verdict at import time stays in "check_result")."""
import glob, json, os, re, subprocess, sys, time
WT = os.environ.get("MUT_WT", "/var/tmp/wt3")
MUT = os.environ.get("VERIF_MUT", "/var/tmp/verif_mut3")
if not os.path.exists(WT):
    subprocess.run(["git", "-C", "/repo", "worktree", "add", "--detach", WT, "HEAD"], capture_output=True)
ids = sys.argv[1:] or sorted(os.path.basename(os.path.dirname(p)) for p in glob.glob("/verif/seeded/*/meta.json"))
for sid in ids:
    d = "/verif/seeded/" + sid
    meta = json.load(open(d + "/meta.json"))
    subprocess.run("git -C %s checkout -q -- . ; git -C %s clean -fdq aquacrop" % (WT, WT), shell=True)
    r = subprocess.run(["git", "-C", WT, "apply", d + "/patch.diff"], capture_output=True, text=True)
    if r.returncode != 0:
        print(sid, "PATCH DOES NOT APPLY"); continue
    t0 = time.time()
    out = subprocess.run(["/verif/harness/tools/mut_check.sh", WT, meta["property"]], capture_output=True, text=True, env=dict(os.environ, VERIF_MUT=MUT)).stdout
    m = re.search(r"\[check (C\d+)\] exit=(\d+) (.*)", out)
    rec = {"exit": int(m.group(2)) if m else None, "line": m.group(3).strip() if m else out[-200:],
           "first_signals": [l.strip()[:230] for l in out.split("\n") if l.startswith("  - ")][:3], "wall_s": round(time.time() - t0)}
    meta = json.load(open(d + "/meta.json")); meta["recheck"] = rec
    json.dump(meta, open(d + "/meta.json", "w"), indent=1)
    print(sid, rec["exit"], rec["line"][:110]); sys.stdout.flush()
subprocess.run("git -C %s checkout -q -- . ; git -C %s clean -fdq aquacrop" % (WT, WT), shell=True)
