#!/usr/bin/env python3
"""seeded_table.py — regenerate the table of seeded changes in DESIGN.md (between the SEEDED-TABLE markers) from seeded/*/meta.json."""
import glob, json, os, re
rows = []
for d in sorted(glob.glob("/verif/seeded/*/meta.json"), key=lambda p: (p.split("/")[-2].split("-")[0], int(p.split("/")[-2].split("-m")[1]))):
    sid = d.split("/")[-2]; m = json.load(open(d))
    cr = m.get("check_result") or {}
    if isinstance(cr, list): cr = cr[0] if cr else {}
    line = cr.get("line", "")
    c = m.get("confirmed_by_lead") or {}
    conf = all(c.get(k) for k in ("tests_pass_with_change", "demo_passes_on_unchanged_tree", "demo_fails_with_change"))
    if "VIOLATION" in line and "no-failing-input-found" in line: verdict = "caught: tie broken, no failing input found"
    elif "VIOLATION" in line: verdict = "caught with a failing input"
    elif line.startswith("OK"): verdict = "**MISSED**"
    else: verdict = "(not run)"
    rc = m.get("recheck") or {}
    rl = rc.get("line", "")
    if rl:
        now = ("caught, failing input" if ("VIOLATION" in rl and "no-failing-input-found" not in rl) else "caught, tie broken" if "VIOLATION" in rl else "MISSED" if rl.startswith("OK") else "?")
        verdict += " -> now: " + now
    sig = ((rc.get("first_signals") or m.get("first_signals") or [""])[0]).lstrip("- ")[:110].replace("|", "/")
    files = ", ".join(os.path.basename(f) for f in m.get("files_changed", []))[:60]
    summ = re.sub(r"\s+", " ", m.get("summary", ""))[:150].replace("|", "/")
    rows.append("| %s | %s | %s | %s | %s | %s |" % (sid, files, summ, "yes" if conf else "NO", verdict, sig))
tab = "| id | file(s) | change | confirmed | verdict of `./check` (quick): at import -> after the strengthening of 15.6 | first signal |\n|---|---|---|---|---|---|\n" + "\n".join(rows)
p = "/verif/DESIGN.md"; s = open(p).read()
a, b = "<!-- SEEDED-TABLE-BEGIN -->", "<!-- SEEDED-TABLE-END -->"
if a in s:
    s = s[:s.index(a) + len(a)] + "\n" + tab + "\n" + s[s.index(b):]
    open(p, "w").write(s)
print(tab[:600])
