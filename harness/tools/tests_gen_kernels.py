#!/venv/bin/python
"""tests_gen_kernels.py — self-test of the fail-closed translator harness/gen_kernels.py and of the equivalence
proofs coq/theories/proofs/KernelsSrcOK.v and ProcsSrcOK.v.

(a) baseline: the translator runs on the current source tree, is deterministic, its output are the files checked in
    as coq/theories/gen/KernelsSrc.v and ProcsSrc.v, and these + KernelsSrcOK.v / ProcsSrcOK.v compile (in a scratch
    tree; the other libraries are taken from coq/theories through symlinks to their .vo files, nothing is written
    there).  For a mutation, a generated file that is byte-identical to the baseline's is not compiled again.
(b) mutations: small edits of a temporary copy of the source (VERIF_REPO=<copy>); for each one the expected outcome
        proof breaks      the translator accepts the edit, the generated text changes, a theorem of KernelsSrcOK.v fails
        still proves      the edit is harmless and the unchanged proofs go through
        translator error  exit status 2, message TRANSLATOR-ERROR: <file>:<line>: unsupported ..., nothing written
    is checked (for `proof breaks` also the theorem that has to fail).

usage:  /venv/bin/python harness/tools/tests_gen_kernels.py [--keep] [--only name,name] [--no-crop]
        (--no-crop: without the CropSrc pair, whose proof file takes about 8 minutes per compilation; env GEN_KERNELS=<file
         in harness/> runs another copy of the translator, env KERNELSRC_TEST_DIR=<dir> uses another scratch directory)
exit status 0 iff every test behaved as expected.  Scratch: /tmp/kernelsrc/selftest (removed afterwards unless --keep)."""
import os, re, shutil, subprocess, sys, time

VERIF = os.path.dirname(os.path.dirname(os.path.dirname(os.path.abspath(__file__))))
SRC_REPO = os.environ.get("VERIF_REPO", "/repo")
BASE = os.environ.get("KERNELSRC_TEST_DIR", "/tmp/kernelsrc/selftest")
PY = "/venv/bin/python"
GEN = os.path.join(VERIF, "harness", os.environ.get("GEN_KERNELS", "gen_kernels.py"))     # GEN_KERNELS=gen_kernels_dev.py: a private copy
THEORIES = os.path.join(VERIF, "coq", "theories")
SOL = "aquacrop/solution/"


def source_files():
    sys.path.insert(0, os.path.join(VERIF, "harness"))
    import importlib
    gen_kernels = importlib.import_module(os.path.basename(GEN)[:-3])
    return sorted({rel for rel, _ in gen_kernels.FUNCTIONS + gen_kernels.PROCS + gen_kernels.CROPS})


def copy_repo(dst, files):
    if os.path.exists(dst):
        shutil.rmtree(dst)
    for rel in files:
        os.makedirs(os.path.dirname(os.path.join(dst, rel)), exist_ok=True)
        shutil.copy(os.path.join(SRC_REPO, rel), os.path.join(dst, rel))


def edit(repo, rel, old, new, count=1):
    p = os.path.join(repo, rel)
    s = open(p).read()
    if s.count(old) < 1 or (count is not None and s.count(old) != count):
        raise RuntimeError("test set-up: %r occurs %d times in %s (expected %s)" % (old[:60], s.count(old), rel, count))
    open(p, "w").write(s.replace(old, new))


def run_gen(repo, out):
    env = dict(os.environ, VERIF_REPO=repo)
    r = subprocess.run([PY, "-W", "ignore", GEN, "--out", out], env=env, capture_output=True, text=True, timeout=300)
    return r.returncode, (r.stdout + r.stderr).strip()


def make_scratch_tree(scratch):
    """theories/ with symlinks to every compiled library of the development except the two files under test"""
    if os.path.exists(scratch):
        shutil.rmtree(scratch)
    for d, _, names in os.walk(THEORIES):
        reld = os.path.relpath(d, THEORIES)
        for n in names:
            if not n.endswith(".vo"):
                continue
            if (reld, n) in (("gen", "KernelsSrc.vo"), ("proofs", "KernelsSrcOK.vo"), ("gen", "ProcsSrc.vo"), ("proofs", "ProcsSrcOK.vo"),
                             ("gen", "CropSrc.vo"), ("proofs", "CropSrcOK.vo")):
                continue
            os.makedirs(os.path.join(scratch, "theories", reld), exist_ok=True)
            os.symlink(os.path.join(d, n), os.path.join(scratch, "theories", reld, n))
    os.makedirs(os.path.join(scratch, "theories", "gen"), exist_ok=True)
    os.makedirs(os.path.join(scratch, "theories", "proofs"), exist_ok=True)
    shutil.copy(os.path.join(THEORIES, "proofs", "KernelsSrcOK.v"), os.path.join(scratch, "theories", "proofs"))
    shutil.copy(os.path.join(THEORIES, "proofs", "ProcsSrcOK.v"), os.path.join(scratch, "theories", "proofs"))
    shutil.copy(os.path.join(THEORIES, "proofs", "CropSrcOK.v"), os.path.join(scratch, "theories", "proofs"))


PAIRS = [("KernelsSrc", "KernelsSrcOK"), ("ProcsSrc", "ProcsSrcOK"), ("CropSrc", "CropSrcOK")]
COMPILED = {}        # generated file -> text whose .vo (and proof .vo) is in the scratch tree right now


def read_out(out):
    return {g: open(os.path.join(out, g + ".v")).read() for g, _ in PAIRS if os.path.exists(os.path.join(out, g + ".v"))}


INFRA = ("inconsistent assumptions", "Cannot find a physical path", "Cannot find library", "Compiled library", "bad version number")


def coq_check(out, scratch, crop=True):
    """compile the generated files of directory `out` and their proof files in the scratch tree.  A pair is compiled
    again only if its generated text differs from what the scratch tree holds, or (CropSrc, which imports the two
    others) if one of the others was compiled again since.  crop=False: the CropSrc pair (about 9 minutes) is left out.
    -> ("ok", "") | ("gen", msg) a generated file does not compile | ("proof", theorem) | ("infra", msg)"""
    todo = []
    for g, pr in PAIRS:
        text = open(os.path.join(out, g + ".v")).read()
        if g == "CropSrc" and not crop:
            continue
        if COMPILED.get(g) == text:
            continue
        COMPILED.pop(g, None)
        if g != "CropSrc":
            COMPILED.pop("CropSrc", None)          # its .vo depends on this one
        for ext in (".vo", ".vok", ".vos", ".glob"):
            for f in ("gen/" + g, "proofs/" + pr):
                p = os.path.join(scratch, "theories", f + ext)
                if os.path.lexists(p):
                    os.remove(p)
        shutil.copy(os.path.join(out, g + ".v"), os.path.join(scratch, "theories", "gen", g + ".v"))
        todo += [("theories/gen/%s.v" % g, None, None), ("theories/proofs/%s.v" % pr, g, text)]
    for f, done_g, done_text in todo:
        for attempt in range(3):
            r = subprocess.run(["timeout", "2400", "coqc", "-Q", "theories", "AC", f], cwd=scratch, capture_output=True, text=True)
            err = (r.stderr or "") + (r.stdout if r.returncode else "")
            if r.returncode != 0 and any(k in err for k in INFRA) and attempt < 2:
                time.sleep(120)       # another process is rebuilding the shared libraries
                continue
            break
        if r.returncode == 0:
            if done_g is not None:
                COMPILED[done_g] = done_text
            continue
        if any(k in err for k in INFRA) or r.returncode == 124:
            return "infra", err.strip().splitlines()[-1][:200] if err.strip() else "timeout"
        if "/gen/" in f:
            return "gen", " ".join(err.split())[:200]
        m = re.search(r"line (\d+)", err)
        thm = "?"
        if m:
            lines = open(os.path.join(scratch, f)).read().splitlines()
            for i in range(min(int(m.group(1)), len(lines)) - 1, -1, -1):
                mm = re.match(r"\s*(Theorem|Lemma|Corollary|Example)\s+(\w+)", lines[i])
                if mm:
                    thm = mm.group(2)
                    break
        return "proof", thm
    return "ok", ""


# ------------------------------------------------------------------------------------------------
#  mutations: (name, what, apply(repo), expected outcome, detail)
#    outcome "proof breaks": detail = theorem that must be the first to fail
#    outcome "translator error": detail = regular expression the message must match
# ------------------------------------------------------------------------------------------------
GDD, CCD, CRT, TST = SOL + "growing_degree_day.py", SOL + "cc_development.py", SOL + "cc_required_time.py", SOL + "temperature_stress.py"
AER, WST, ADJ, UPD = SOL + "aeration_stress.py", SOL + "water_stress.py", SOL + "adjust_CCx.py", SOL + "update_CCx_CDC.py"
CMP, RST = "aquacrop/initialize/compute_variables.py", "aquacrop/timestep/reset_initial_conditions.py"
IRR, GST, BIO = SOL + "irrigation.py", SOL + "growth_stage.py", SOL + "biomass_accumulation.py"
RST2 = "aquacrop/timestep/run_single_timestep.py"
HIX, CCV = SOL + "harvest_index.py", SOL + "canopy_cover.py"
HIR, POL, PST = SOL + "HIref_current_day.py", SOL + "HIadj_pollination.py", SOL + "HIadj_post_anthesis.py"

MUTATIONS = [
    ("const_gdd", "growing_degree_day, method 1: (tmax+tmin)/2 -> /3",
     lambda r: edit(r, GDD, "        Tmean = (temp_max + temp_min) / 2\n        Tmean = min(Tmean, Tupp)",
                    "        Tmean = (temp_max + temp_min) / 3\n        Tmean = min(Tmean, Tupp)"),
     "proof breaks", "growing_degree_day_src_ok"),
    ("swap_minmax", "growing_degree_day, method 1: min(Tmean, Tupp) -> max(Tmean, Tupp)",
     lambda r: edit(r, GDD, "Tmean = min(Tmean, Tupp)", "Tmean = max(Tmean, Tupp)"),
     "proof breaks", "growing_degree_day_src_ok"),
    ("swap_min_args", "growing_degree_day, method 1: min(Tmean, Tupp) -> min(Tupp, Tmean) (differs on ties of signed zeros / NaN only)",
     lambda r: edit(r, GDD, "Tmean = min(Tmean, Tupp)", "Tmean = min(Tupp, Tmean)"),
     "proof breaks", "growing_degree_day_src_ok"),
    ("lt_to_le", "aeration_stress: AerDays < LagAer -> <=",
     lambda r: edit(r, AER, "if NewCond_AerDays < Crop_LagAer:", "if NewCond_AerDays <= Crop_LagAer:"),
     "proof breaks", "aeration_stress_src_ok"),
    ("reorder_assign", "temperature_stress: the two constant assignments KsPol_up / KsPol_lo swapped (harmless)",
     lambda r: edit(r, TST, "    KsPol_up = 1\n    KsPol_lo = 0.001\n", "    KsPol_lo = 0.001\n    KsPol_up = 1\n"),
     "still proves", None),
    ("rename_local", "growing_degree_day: local Tmean renamed Tavg everywhere (harmless)",
     lambda r: edit(r, GDD, "Tmean", "Tavg", count=None),
     "still proves", None),
    ("parens_comment", "cc_development: redundant parentheses and a comment (harmless; generated term identical)",
     lambda r: edit(r, CCD, "canopy_cover = CCo * np.exp(CGC * dt)", "canopy_cover = (CCo * (np.exp((CGC * dt))))  # same thing"),
     "still proves", None),
    ("same_double", "update_CCx_CDC: 3.33 -> 3.3300000000000001 (the same double)",
     lambda r: edit(r, UPD, "3.33", "3.3300000000000001"),
     "still proves", None),
    ("add_branch", "growing_degree_day: new branch `elif GDDmethod == 4: gdd = 0.0`",
     lambda r: edit(r, GDD, "\n    return gdd", "    elif GDDmethod == 4:\n        gdd = 0.0\n\n    return gdd"),
     "proof breaks", "growing_degree_day_src_ok"),
    ("elif_to_else", "temperature_stress: `elif Crop.PolHeatStress == 1:` -> `else:` (flag 2 no longer raises)",
     lambda r: edit(r, TST, "elif Crop.PolHeatStress == 1:", "else:"),
     "proof breaks", "temperature_stress_src_ok"),
    ("drop_assign", "aeration_stress: `Ksa_Aer = 1` removed from the else branch (UnboundLocalError there)",
     lambda r: edit(r, AER, "        Ksa_Aer = 1\n", "        pass\n"),
     "proof breaks", "aeration_stress_src_ok"),
    ("reassociate", "cc_required_time: 0.25 * CCx * CCx / CCo -> 0.25 * (CCx * CCx) / CCo (equal over R, not in floats)",
     lambda r: edit(r, CRT, "(0.25 * CCx * CCx / CCo)", "(0.25 * (CCx * CCx) / CCo)"),
     "proof breaks", "cc_required_time_src_cgc_ok"),
    ("ws_const", "water_stress: ET0 adjustment constant 0.04 -> 0.05 (p_up only)",
     lambda r: edit(r, WST, "p_up[ii] = p_up[ii] + (0.04 *", "p_up[ii] = p_up[ii] + (0.05 *"),
     "proof breaks", "water_stress_src_ok"),
    ("ws_range", "water_stress: the ET0 adjustment loop runs over range(4) (pollination threshold adjusted too)",
     lambda r: edit(r, WST, "        for ii in range(3):\n            p_up[ii]", "        for ii in range(4):\n            p_up[ii]"),
     "proof breaks", "water_stress_src_ok"),
    ("callee_mode", "adjust_CCx: cc_required_time(..., \"CGC\") -> \"CDC\"",
     lambda r: edit(r, ADJ, 'CDC, "CGC")', 'CDC, "CDC")'),
     "proof breaks", "adjust_CCx_src_ok"),
    ("while_loop", "cc_development: `if canopy_cover > CCx:` -> `while canopy_cover > CCx:` (unsupported construct)",
     lambda r: edit(r, CCD, "        if canopy_cover > CCx:\n", "        while canopy_cover > CCx:\n"),
     "translator error", r"aquacrop/solution/cc_development\.py:\d+: unsupported while"),
    ("unknown_call", "temperature_stress: np.exp -> np.expm1 (unknown function)",
     lambda r: edit(r, TST, "np.exp(", "np.expm1(", count=2),
     "translator error", r"aquacrop/solution/temperature_stress\.py:\d+: unsupported call np\.expm1"),
    ("default_param", "growing_degree_day: a default value for the last parameter",
     lambda r: edit(r, GDD, "    temp_min: float,\n    ):", "    temp_min: float = 0.0,\n    ):"),
     "translator error", r"aquacrop/solution/growing_degree_day\.py:\d+: unsupported parameter list"),
    ("short_circuit_if", "aeration_stress: a possibly-unbound name behind `and` in an if-test (desugared into nested ifs)",
     lambda r: edit(r, AER, "        if NewCond_AerDays > Crop_LagAer:", "        if NewCond_AerDays > Crop_LagAer and Ksa_Aer > 0:"),
     "proof breaks", "aeration_stress_src_ok"),
    ("short_circuit_expr", "aeration_stress: a possibly-unbound name behind `and` under `not` (cannot be modelled by None)",
     lambda r: edit(r, AER, "        if NewCond_AerDays > Crop_LagAer:", "        if not (NewCond_AerDays > Crop_LagAer and Ksa_Aer > 0):"),
     "translator error", r"aquacrop/solution/aeration_stress\.py:\d+: unsupported possibly-unbound name Ksa_Aer"),
    ("fco2_const", "compute_variables, CO2 block: 0.58 -> 0.59",
     lambda r: edit(r, CMP, "fCO2new = 1 + 0.58 *", "fCO2new = 1 + 0.59 *"),
     "proof breaks", "fco2_block_src_ok"),
    ("fco2_reset_ge", "reset_initial_conditions, CO2 block: `elif CO2conc >= 550:` -> `>`",
     lambda r: edit(r, RST, "        elif CO2conc >= 550:", "        elif CO2conc > 550:"),
     "proof breaks", "fco2_reset_block_src_ok"),
    ("fco2_reset_repair", "reset_initial_conditions, CO2 block: fCO2old computed unconditionally (`if CO2conc <= 550:` -> `if True:`), "
                          "so the UnboundLocalError for 550 < CO2conc <= CO2ref disappears",
     lambda r: edit(r, RST, "    if CO2conc <= 550:\n        # Set weighting", "    if True:\n        # Set weighting"),
     "proof breaks", "fco2_reset_block_src_ok"),
    ("block_lost", "compute_variables: the store `crop.fCO2 = ...` renamed (block end not found)",
     lambda r: edit(r, CMP, "    crop.fCO2 = 1 + ftype", "    crop.fco2 = 1 + ftype"),
     "translator error", r"aquacrop/initialize/compute_variables\.py:\d+: unsupported function compute_variables: block"),
    ("block_two_crops", "compute_variables: the crop loop of the CO2 block runs twice (`crop = ...` executed twice on a path)",
     lambda r: edit(r, CMP, "    for i in range(param_struct.NCrops):\n        crop = param_struct.CropList[i]\n        # Determine initial",
                    "    for i in range(2):\n        crop = param_struct.CropList[i]\n        # Determine initial"),
     "translator error", r"aquacrop/initialize/compute_variables\.py:\d+: unsupported second execution of `crop = \.\.\.`"),
    # ---- phase 2: process functions (ProcsSrc.v / ProcsSrcOK.v)
    ("irr_cap_cmp", "irrigation: seasonal cap test `IrrCum + Irr > MaxIrrSeason` -> `>=`",
     lambda r: edit(r, IRR, "if NewCond_IrrCum + Irr > IrrMngt_MaxIrrSeason:", "if NewCond_IrrCum + Irr >= IrrMngt_MaxIrrSeason:"),
     "proof breaks", "irrigation_src_ok"),
    ("irr_drop_min", "irrigation, soil-moisture method: `Irr = min(MaxIrr, IrrReq)` -> `Irr = IrrReq` (daily cap dropped)",
     lambda r: edit(r, IRR, "                Irr = min(IrrMngt_MaxIrr, IrrReq)\n                # Irr = 15",
                    "                Irr = IrrReq\n                # Irr = 15"),
     "proof breaks", "irrigation_src_ok"),
    ("irr_const", "irrigation, interval method: efficiency adjustment `+ 100) / 100` -> `+ 100) / 10`",
     lambda r: edit(r, IRR, "                EffAdj = ((100 - IrrMngt_AppEff) + 100) / 100\n                IrrReq = IrrReq * EffAdj\n                # Limit irrigation to maximum depth\n                Irr = min(IrrMngt_MaxIrr, IrrReq)\n            else:\n                # No irrigation",
                    "                EffAdj = ((100 - IrrMngt_AppEff) + 100) / 10\n                IrrReq = IrrReq * EffAdj\n                # Limit irrigation to maximum depth\n                Irr = min(IrrMngt_MaxIrr, IrrReq)\n            else:\n                # No irrigation"),
     "proof breaks", "irrigation_src_ok"),
    ("irr_drop_assert", "irrigation, schedule method: `assert Irr >= 0` removed (a negative scheduled depth no longer raises)",
     lambda r: edit(r, IRR, "            assert Irr >= 0\n", "            pass\n"),
     "proof breaks", "irrigation_src_ok"),
    ("irr_rename", "irrigation: local WCadj renamed WCadjust everywhere (harmless)",
     lambda r: edit(r, IRR, "WCadj", "WCadjust", count=None),
     "still proves", None),
    ("irr_ext_args", "irrigation: root_zone_water called with Crop.Zmin in place of Crop.Aer (pinned argument list)",
     lambda r: edit(r, IRR, "            float(Crop.Zmin),\n            Crop.Aer,\n", "            float(Crop.Zmin),\n            Crop.Zmin,\n"),
     "proof breaks", "irrigation_src_calls_pinned"),
    ("irr_round", "irrigation: `int(NewCond_GrowthStage)` -> `round(NewCond_Epot)` (rounding not listed in ROUND_OPS)",
     lambda r: edit(r, IRR, "index = int(NewCond_GrowthStage) - 1", "index = round(NewCond_Epot) - 1"),
     "translator error", r"aquacrop/solution/irrigation\.py:\d+: unsupported round\(\.\.\.\) that is not listed in ROUND_OPS"),
    ("irr_float_index", "irrigation: schedule indexed with a float",
     lambda r: edit(r, IRR, "Irr = IrrMngt_Schedule[idx]", "Irr = IrrMngt_Schedule[Rain]"),
     "translator error", r"aquacrop/solution/irrigation\.py:\d+: unsupported list index that is not an integer"),
    ("gs_cmp", "growth_stage: `elif tAdj <= Crop.MaxCanopy` -> `<`",
     lambda r: edit(r, GST, "elif tAdj <= Crop.MaxCanopy:", "elif tAdj < Crop.MaxCanopy:"),
     "proof breaks", "growth_stage_src_ok"),
    ("gs_other_object", "growth_stage: a store into an attribute of Crop while NewCond is returned",
     lambda r: edit(r, GST, "            NewCond.growth_stage = 2", "            Crop.MaxCanopy = 2"),
     "translator error", r"aquacrop/solution/growth_stage\.py:\d+: unsupported return of InitCond while a slot of another object"),
    ("bio_const", "biomass_accumulation: fswitch = PctLagPhase / 100 -> / 10",
     lambda r: edit(r, BIO, "fswitch = NewCond_PctLagPhase / 100", "fswitch = NewCond_PctLagPhase / 10"),
     "proof breaks", "biomass_accumulation_src_ok"),
    ("bio_drop_nan", "biomass_accumulation: the `if np.isnan(dB) == True: dB = 0` guard removed",
     lambda r: edit(r, BIO, "        if np.isnan(dB) == True:\n            dB = 0\n", ""),
     "proof breaks", "biomass_accumulation_src_ok"),
    ("hiref_const", "HIref_current_day: 0.9799 -> 0.98",
     lambda r: edit(r, HIR, "0.9799", "0.98"),
     "proof breaks", "HIref_current_day_src_ok"),
    ("poll_min_order", "HIadj_pollination: min([Ksw.pol, Kst.PolC, Kst.PolH]) -> min([Kst.PolC, Ksw.pol, Kst.PolH])",
     lambda r: edit(r, POL, "min([Ksw.pol, Kst.PolC, Kst.PolH])", "min([Kst.PolC, Ksw.pol, Kst.PolH])"),
     "proof breaks", "HIadj_pollination_src_ok"),
    ("post_reorder", "HIadj_post_anthesis: the two assignments `tmax2 = ...` / `dap = ...` swapped (harmless)",
     lambda r: edit(r, PST, "    tmax2 = Crop.YldFormCD\n    dap = NewCond_DAP - InitCond_DelayedCDs\n",
                    "    dap = NewCond_DAP - InitCond_DelayedCDs\n    tmax2 = Crop.YldFormCD\n"),
     "still proves", None),
    ("post_guard", "HIadj_post_anthesis: `NewCond_Fpre > 0.99` -> `>= 0.99` in the first adjustment",
     lambda r: edit(r, PST, "        and (NewCond_Fpre > 0.99)\n        and (NewCond_CC > 0.001)\n        and (Crop.a_HI > 0)",
                    "        and (NewCond_Fpre >= 0.99)\n        and (NewCond_CC > 0.001)\n        and (Crop.a_HI > 0)"),
     "proof breaks", "HIadj_post_anthesis_src_ok"),
    ("yld_const", "run_single_timestep, yield block: DryYield = (biomass / 100) * HIadj -> / 1000",
     lambda r: edit(r, RST2, "NewCond.DryYield = (NewCond.biomass / 100)", "NewCond.DryYield = (NewCond.biomass / 1000)"),
     "proof breaks", "yield_block_src_ok"),
    ("yld_elif_to_else", "run_single_timestep, yield block: `elif growing_season is False` -> `else` (harmless for a bool, but the "
                         "incoming DryYield/FreshYield are no longer read: the generated signature loses two parameters)",
     lambda r: edit(r, RST2, "    elif growing_season is False:\n        # Crop yield_ is zero", "    else:\n        # Crop yield_ is zero"),
     "proof breaks", "yield_block_src_ok"),
    # ---- phase 3: harvest_index / canopy_cover (CropSrc.v / CropSrcOK.v; only these rows compile the CropSrc pair)
    ("hi_cap_cmp", "harvest_index: cap test `HImult > 1 + dHI0/100` -> `>=`",
     lambda r: edit(r, HIX, "if HImult > 1 + (Crop.dHI0 / 100):", "if HImult >= 1 + (Crop.dHI0 / 100):"),
     "proof breaks", "harvest_index_src_ok"),
    ("hi_drop_pol", "harvest_index: `HImax = NewCond.f_pol * Crop.HI0` -> `HImax = Crop.HI0` (pollination factor dropped)",
     lambda r: edit(r, HIX, "HImax = NewCond.f_pol * Crop.HI0", "HImax = Crop.HI0"),
     "proof breaks", "harvest_index_src_ok"),
    ("hi_ext_args", "harvest_index: root_zone_water called with Crop.Zmin in place of Crop.Aer (pinned argument list)",
     lambda r: edit(r, HIX, "            float(Crop.Zmin),\n            Crop.Aer,\n", "            float(Crop.Zmin),\n            Crop.Zmin,\n"),
     "proof breaks", "harvest_index_src_calls_pinned"),
    ("hi_record_read", "harvest_index: the record ksw is no longer filled before it is handed to HIadj_pollination",
     lambda r: edit(r, HIX, "        ksw.exp, ksw.sto, ksw.sen, ksw.pol, ksw.sto_lin = Ksw_Exp, Ksw_Sto, Ksw_Sen, Ksw_Pol, Ksw_StoLin\n", ""),
     "translator error", r"aquacrop/solution/harvest_index\.py:\d+: unsupported read of the attribute ksw\.\w+ that this function has not assigned"),
    ("hi_rename", "harvest_index: local HImult renamed HIm everywhere (harmless)",
     lambda r: edit(r, HIX, "HImult", "HIm", count=None),
     "still proves", None),
    ("cc_const", "canopy_cover: protected-seed test `InitCond_CC <= 1.25 * cc0_adj` -> 1.5",
     lambda r: edit(r, CCV, "(InitCond_CC <= (1.25 * NewCond.cc0_adj))", "(InitCond_CC <= (1.5 * NewCond.cc0_adj))"),
     "proof breaks", "canopy_cover_src_ok"),
    ("cc_pot_const", "canopy_cover, potential canopy: cc_development(CC0, 0.98 * CCx, ...) -> 0.97",
     lambda r: edit(r, CCV, "0.98 * Crop.CCx", "0.97 * Crop.CCx"),
     "proof breaks", "canopy_cover_src_ok"),
    ("cc_cmp", "canopy_cover, early senescence: `if CCsen > Crop.CCx:` -> `>=` (the case analysis of the block outgrows its "
               "Timeout: coqc stops with `Timeout!` inside the proof after about 4 minutes)",
     lambda r: edit(r, CCV, "if CCsen > Crop.CCx:", "if CCsen >= Crop.CCx:"),
     "proof breaks", "canopy_cover_src_ok"),
    ("cc_unknown_class", "canopy_cover: `water_stress_coef = Ksw()` -> an unknown constructor",
     lambda r: edit(r, CCV, "        water_stress_coef = Ksw()\n        water_stress_coef.exp,", "        water_stress_coef = dict()\n        water_stress_coef.exp,"),
     "translator error", r"aquacrop/solution/canopy_cover\.py:\d+: unsupported "),
    ("syntax_error", "water_stress: source no longer parses",
     lambda r: edit(r, WST, "    Ksw_Exp = Ks[0]\n", "    Ksw_Exp = Ks[0\n"),
     "translator error", r"aquacrop/solution/water_stress\.py:\d+: unsupported syntax"),
]


def main():
    argv = sys.argv[1:]
    keep = "--keep" in argv
    no_crop = "--no-crop" in argv      # leave the CropSrc pair (about 9 minutes per compilation) and its rows out
    only = None
    if "--only" in argv:
        only = argv[argv.index("--only") + 1].split(",")
    files = source_files()
    rows = []
    ok_all = True
    scratch = os.path.join(BASE, "coq")
    make_scratch_tree(scratch)

    # ---- (a) baseline
    repo0 = os.path.join(BASE, "repo_base")
    copy_repo(repo0, files)
    out0, out0b = os.path.join(BASE, "out_base"), os.path.join(BASE, "out_base2")
    rc, msg = run_gen(repo0, out0)
    rc2, _ = run_gen(repo0, out0b)
    base = read_out(out0) if rc == 0 else None
    base_text = "".join(base[g] for g, _ in PAIRS) if base else None
    good = rc == 0 and rc2 == 0 and base == read_out(out0b) and len(base) == len(PAIRS)
    rows.append(("baseline/translate", "translator on the unmodified source, twice", "exit 0, identical output",
                 "exit %d/%d%s" % (rc, rc2, "" if good else " " + msg[:120]), good))
    ok_all &= good
    if base_text is not None:
        same = all(os.path.exists(os.path.join(THEORIES, "gen", g + ".v"))
                   and open(os.path.join(THEORIES, "gen", g + ".v")).read() == base[g] for g, _ in PAIRS)
        rows.append(("baseline/current", "coq/theories/gen/{KernelsSrc,ProcsSrc,CropSrc}.v are what the translator produces now", "identical",
                     "identical" if same else "DIFFERENT (regenerate)", same))
        ok_all &= same
        kind, detail = coq_check(out0, scratch, crop=not no_crop)
        rows.append(("baseline/coq", "KernelsSrc.v, ProcsSrc.v, CropSrc.v and their three proof files compile", "still proves",
                     {"ok": "still proves", "gen": "generated file rejected: " + detail, "proof": "proof breaks at " + detail,
                      "infra": "INFRASTRUCTURE: " + detail}[kind], kind == "ok"))
        ok_all &= kind == "ok"

    # ---- (b) mutations
    for name, what, apply, expected, detail in MUTATIONS:
        if only is not None and name not in only:
            continue
        if no_crop and name.startswith(("hi_", "cc_")):
            continue
        repo = os.path.join(BASE, "repo_" + name)
        out = os.path.join(BASE, "out_" + name)
        copy_repo(repo, files)
        apply(repo)
        rc, msg = run_gen(repo, out)
        wrote = bool(read_out(out))
        if rc != 0:
            m = re.search(r"TRANSLATOR-ERROR: (.*)", msg)
            got = "translator error"
            shown = "translator error: " + (m.group(1)[:110] if m else msg[:110])
            good = (expected == "translator error" and rc == 2 and not wrote and m is not None
                    and re.search(detail, m.group(1)) is not None)
            if wrote:
                shown += " [BUT a file was written]"
        else:
            text = "".join(read_out(out)[g] for g, _ in PAIRS)
            strip = lambda s: re.sub(r"\(\*.*?\*\)", "", s, flags=re.S)
            changed = strip(text) != strip(base_text or "")
            kind, d = coq_check(out, scratch, crop=name.startswith(("hi_", "cc_")))
            if kind == "ok":
                got, shown = "still proves", "still proves (generated definitions %s)" % ("changed" if changed else "unchanged")
                good = expected == "still proves"
            elif kind == "proof":
                got, shown = "proof breaks", "proof breaks at " + d
                good = expected == "proof breaks" and d == detail
            elif kind == "gen":
                got, shown, good = "generated file rejected", "generated file rejected by coqc: " + d, False
            else:
                got, shown, good = "infra", "INFRASTRUCTURE: " + d, False
        exp = expected + ((" at " + detail) if expected == "proof breaks" else "")
        rows.append((name, what, exp, shown, good))
        ok_all &= good
        if not keep:
            shutil.rmtree(repo, ignore_errors=True)
            shutil.rmtree(out, ignore_errors=True)

    w = max(len(r[0]) for r in rows)
    for name, what, exp, got, good in rows:
        print("%-4s %-*s  %s\n     %*s  expected: %s\n     %*s  observed: %s" % ("ok" if good else "FAIL", w, name, what, w, "", exp, w, "", got))
    print("%d/%d as expected" % (sum(1 for r in rows if r[4]), len(rows)))
    if not keep:
        shutil.rmtree(BASE, ignore_errors=True)
    sys.exit(0 if ok_all else 1)


if __name__ == "__main__":
    main()
