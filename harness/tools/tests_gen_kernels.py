#!/venv/bin/python
"""tests_gen_kernels.py — self-test of the fail-closed translator harness/gen_kernels.py and of the equivalence
proofs coq/theories/proofs/KernelsSrcOK.v.

(a) baseline: the translator runs on the current source tree, is deterministic, its output is the file checked in
    as coq/theories/gen/KernelsSrc.v, and KernelsSrc.v + KernelsSrcOK.v compile (in a scratch tree; the other
    libraries are taken from coq/theories through symlinks to their .vo files, nothing is written there).
(b) mutations: small edits of a temporary copy of the source (VERIF_REPO=<copy>); for each one the expected outcome
        proof breaks      the translator accepts the edit, the generated text changes, a theorem of KernelsSrcOK.v fails
        still proves      the edit is harmless and the unchanged proofs go through
        translator error  exit status 2, message TRANSLATOR-ERROR: <file>:<line>: unsupported ..., nothing written
    is checked (for `proof breaks` also the theorem that has to fail).

usage:  /venv/bin/python harness/tools/tests_gen_kernels.py [--keep] [--only name,name]
exit status 0 iff every test behaved as expected.  Scratch: /tmp/kernelsrc/selftest (removed afterwards unless --keep)."""
import os, re, shutil, subprocess, sys, time

VERIF = os.path.dirname(os.path.dirname(os.path.dirname(os.path.abspath(__file__))))
SRC_REPO = os.environ.get("VERIF_REPO", "/repo")
BASE = "/tmp/kernelsrc/selftest"
PY = "/venv/bin/python"
GEN = os.path.join(VERIF, "harness", "gen_kernels.py")
THEORIES = os.path.join(VERIF, "coq", "theories")
SOL = "aquacrop/solution/"


def source_files():
    sys.path.insert(0, os.path.join(VERIF, "harness"))
    import gen_kernels
    return sorted({rel for rel, _ in gen_kernels.FUNCTIONS})


def copy_repo(dst, files):
    if os.path.exists(dst):
        shutil.rmtree(dst)
    for rel in files:
        os.makedirs(os.path.dirname(os.path.join(dst, rel)), exist_ok=True)
        shutil.copy(os.path.join(SRC_REPO, rel), os.path.join(dst, rel))


def edit(repo, rel, old, new, count=1):
    p = os.path.join(repo, rel)
    s = open(p).read()
    if s.count(old) < 1 or (count is not None and s.count(old) != count):
        raise RuntimeError("test set-up: %r occurs %d times in %s (expected %s)" % (old[:60], s.count(old), rel, count))
    open(p, "w").write(s.replace(old, new))


def run_gen(repo, out):
    env = dict(os.environ, VERIF_REPO=repo)
    r = subprocess.run([PY, "-W", "ignore", GEN, "--out", out], env=env, capture_output=True, text=True, timeout=300)
    return r.returncode, (r.stdout + r.stderr).strip()


def make_scratch_tree(scratch):
    """theories/ with symlinks to every compiled library of the development except the two files under test"""
    if os.path.exists(scratch):
        shutil.rmtree(scratch)
    for d, _, names in os.walk(THEORIES):
        reld = os.path.relpath(d, THEORIES)
        for n in names:
            if not n.endswith(".vo"):
                continue
            if (reld, n) in (("gen", "KernelsSrc.vo"), ("proofs", "KernelsSrcOK.vo")):
                continue
            os.makedirs(os.path.join(scratch, "theories", reld), exist_ok=True)
            os.symlink(os.path.join(d, n), os.path.join(scratch, "theories", reld, n))
    os.makedirs(os.path.join(scratch, "theories", "gen"), exist_ok=True)
    os.makedirs(os.path.join(scratch, "theories", "proofs"), exist_ok=True)
    shutil.copy(os.path.join(THEORIES, "proofs", "KernelsSrcOK.v"), os.path.join(scratch, "theories", "proofs"))


INFRA = ("inconsistent assumptions", "Cannot find a physical path", "Cannot find library", "Compiled library", "bad version number")


def coq_check(gen_file, scratch):
    """-> ("ok", "") | ("gen", msg) KernelsSrc.v does not compile | ("proof", theorem) | ("infra", msg)"""
    for ext in (".vo", ".vok", ".vos", ".glob"):
        for f in ("gen/KernelsSrc", "proofs/KernelsSrcOK"):
            p = os.path.join(scratch, "theories", f + ext)
            if os.path.lexists(p):
                os.remove(p)
    shutil.copy(gen_file, os.path.join(scratch, "theories", "gen", "KernelsSrc.v"))
    for f in ("theories/gen/KernelsSrc.v", "theories/proofs/KernelsSrcOK.v"):
        for attempt in range(3):
            r = subprocess.run(["timeout", "900", "coqc", "-Q", "theories", "AC", f], cwd=scratch, capture_output=True, text=True)
            err = (r.stderr or "") + (r.stdout if r.returncode else "")
            if r.returncode != 0 and any(k in err for k in INFRA) and attempt < 2:
                time.sleep(120)       # another process is rebuilding the shared libraries
                continue
            break
        if r.returncode == 0:
            continue
        if any(k in err for k in INFRA) or r.returncode == 124:
            return "infra", err.strip().splitlines()[-1][:200] if err.strip() else "timeout"
        if f.endswith("KernelsSrc.v"):
            return "gen", " ".join(err.split())[:200]
        m = re.search(r"line (\d+)", err)
        thm = "?"
        if m:
            lines = open(os.path.join(scratch, f)).read().splitlines()
            for i in range(min(int(m.group(1)), len(lines)) - 1, -1, -1):
                mm = re.match(r"\s*(Theorem|Lemma|Corollary)\s+(\w+)", lines[i])
                if mm:
                    thm = mm.group(2)
                    break
        return "proof", thm
    return "ok", ""


# ------------------------------------------------------------------------------------------------
#  mutations: (name, what, apply(repo), expected outcome, detail)
#    outcome "proof breaks": detail = theorem that must be the first to fail
#    outcome "translator error": detail = regular expression the message must match
# ------------------------------------------------------------------------------------------------
GDD, CCD, CRT, TST = SOL + "growing_degree_day.py", SOL + "cc_development.py", SOL + "cc_required_time.py", SOL + "temperature_stress.py"
AER, WST, ADJ, UPD = SOL + "aeration_stress.py", SOL + "water_stress.py", SOL + "adjust_CCx.py", SOL + "update_CCx_CDC.py"
CMP, RST = "aquacrop/initialize/compute_variables.py", "aquacrop/timestep/reset_initial_conditions.py"

MUTATIONS = [
    ("const_gdd", "growing_degree_day, method 1: (tmax+tmin)/2 -> /3",
     lambda r: edit(r, GDD, "        Tmean = (temp_max + temp_min) / 2\n        Tmean = min(Tmean, Tupp)",
                    "        Tmean = (temp_max + temp_min) / 3\n        Tmean = min(Tmean, Tupp)"),
     "proof breaks", "growing_degree_day_src_ok"),
    ("swap_minmax", "growing_degree_day, method 1: min(Tmean, Tupp) -> max(Tmean, Tupp)",
     lambda r: edit(r, GDD, "Tmean = min(Tmean, Tupp)", "Tmean = max(Tmean, Tupp)"),
     "proof breaks", "growing_degree_day_src_ok"),
    ("swap_min_args", "growing_degree_day, method 1: min(Tmean, Tupp) -> min(Tupp, Tmean) (differs on ties of signed zeros / NaN only)",
     lambda r: edit(r, GDD, "Tmean = min(Tmean, Tupp)", "Tmean = min(Tupp, Tmean)"),
     "proof breaks", "growing_degree_day_src_ok"),
    ("lt_to_le", "aeration_stress: AerDays < LagAer -> <=",
     lambda r: edit(r, AER, "if NewCond_AerDays < Crop_LagAer:", "if NewCond_AerDays <= Crop_LagAer:"),
     "proof breaks", "aeration_stress_src_ok"),
    ("reorder_assign", "temperature_stress: the two constant assignments KsPol_up / KsPol_lo swapped (harmless)",
     lambda r: edit(r, TST, "    KsPol_up = 1\n    KsPol_lo = 0.001\n", "    KsPol_lo = 0.001\n    KsPol_up = 1\n"),
     "still proves", None),
    ("rename_local", "growing_degree_day: local Tmean renamed Tavg everywhere (harmless)",
     lambda r: edit(r, GDD, "Tmean", "Tavg", count=None),
     "still proves", None),
    ("parens_comment", "cc_development: redundant parentheses and a comment (harmless; generated term identical)",
     lambda r: edit(r, CCD, "canopy_cover = CCo * np.exp(CGC * dt)", "canopy_cover = (CCo * (np.exp((CGC * dt))))  # same thing"),
     "still proves", None),
    ("same_double", "update_CCx_CDC: 3.33 -> 3.3300000000000001 (the same double)",
     lambda r: edit(r, UPD, "3.33", "3.3300000000000001"),
     "still proves", None),
    ("add_branch", "growing_degree_day: new branch `elif GDDmethod == 4: gdd = 0.0`",
     lambda r: edit(r, GDD, "\n    return gdd", "    elif GDDmethod == 4:\n        gdd = 0.0\n\n    return gdd"),
     "proof breaks", "growing_degree_day_src_ok"),
    ("elif_to_else", "temperature_stress: `elif Crop.PolHeatStress == 1:` -> `else:` (flag 2 no longer raises)",
     lambda r: edit(r, TST, "elif Crop.PolHeatStress == 1:", "else:"),
     "proof breaks", "temperature_stress_src_ok"),
    ("drop_assign", "aeration_stress: `Ksa_Aer = 1` removed from the else branch (UnboundLocalError there)",
     lambda r: edit(r, AER, "        Ksa_Aer = 1\n", "        pass\n"),
     "proof breaks", "aeration_stress_src_ok"),
    ("reassociate", "cc_required_time: 0.25 * CCx * CCx / CCo -> 0.25 * (CCx * CCx) / CCo (equal over R, not in floats)",
     lambda r: edit(r, CRT, "(0.25 * CCx * CCx / CCo)", "(0.25 * (CCx * CCx) / CCo)"),
     "proof breaks", "cc_required_time_src_cgc_ok"),
    ("ws_const", "water_stress: ET0 adjustment constant 0.04 -> 0.05 (p_up only)",
     lambda r: edit(r, WST, "p_up[ii] = p_up[ii] + (0.04 *", "p_up[ii] = p_up[ii] + (0.05 *"),
     "proof breaks", "water_stress_src_ok"),
    ("ws_range", "water_stress: the ET0 adjustment loop runs over range(4) (pollination threshold adjusted too)",
     lambda r: edit(r, WST, "        for ii in range(3):\n            p_up[ii]", "        for ii in range(4):\n            p_up[ii]"),
     "proof breaks", "water_stress_src_ok"),
    ("callee_mode", "adjust_CCx: cc_required_time(..., \"CGC\") -> \"CDC\"",
     lambda r: edit(r, ADJ, 'CDC, "CGC")', 'CDC, "CDC")'),
     "proof breaks", "adjust_CCx_src_ok"),
    ("while_loop", "cc_development: `if canopy_cover > CCx:` -> `while canopy_cover > CCx:` (unsupported construct)",
     lambda r: edit(r, CCD, "        if canopy_cover > CCx:\n", "        while canopy_cover > CCx:\n"),
     "translator error", r"aquacrop/solution/cc_development\.py:\d+: unsupported while"),
    ("unknown_call", "temperature_stress: np.exp -> np.expm1 (unknown function)",
     lambda r: edit(r, TST, "np.exp(", "np.expm1(", count=2),
     "translator error", r"aquacrop/solution/temperature_stress\.py:\d+: unsupported call np\.expm1"),
    ("default_param", "growing_degree_day: a default value for the last parameter",
     lambda r: edit(r, GDD, "    temp_min: float,\n    ):", "    temp_min: float = 0.0,\n    ):"),
     "translator error", r"aquacrop/solution/growing_degree_day\.py:\d+: unsupported parameter list"),
    ("short_circuit_if", "aeration_stress: a possibly-unbound name behind `and` in an if-test (desugared into nested ifs)",
     lambda r: edit(r, AER, "        if NewCond_AerDays > Crop_LagAer:", "        if NewCond_AerDays > Crop_LagAer and Ksa_Aer > 0:"),
     "proof breaks", "aeration_stress_src_ok"),
    ("short_circuit_expr", "aeration_stress: a possibly-unbound name behind `and` under `not` (cannot be modelled by None)",
     lambda r: edit(r, AER, "        if NewCond_AerDays > Crop_LagAer:", "        if not (NewCond_AerDays > Crop_LagAer and Ksa_Aer > 0):"),
     "translator error", r"aquacrop/solution/aeration_stress\.py:\d+: unsupported possibly-unbound name Ksa_Aer"),
    ("fco2_const", "compute_variables, CO2 block: 0.58 -> 0.59",
     lambda r: edit(r, CMP, "fCO2new = 1 + 0.58 *", "fCO2new = 1 + 0.59 *"),
     "proof breaks", "fco2_block_src_ok"),
    ("fco2_reset_ge", "reset_initial_conditions, CO2 block: `elif CO2conc >= 550:` -> `>`",
     lambda r: edit(r, RST, "        elif CO2conc >= 550:", "        elif CO2conc > 550:"),
     "proof breaks", "fco2_reset_block_src_ok"),
    ("fco2_reset_repair", "reset_initial_conditions, CO2 block: fCO2old computed unconditionally (`if CO2conc <= 550:` -> `if True:`), "
                          "so the UnboundLocalError for 550 < CO2conc <= CO2ref disappears",
     lambda r: edit(r, RST, "    if CO2conc <= 550:\n        # Set weighting", "    if True:\n        # Set weighting"),
     "proof breaks", "fco2_reset_block_src_ok"),
    ("block_lost", "compute_variables: the store `crop.fCO2 = ...` renamed (block end not found)",
     lambda r: edit(r, CMP, "    crop.fCO2 = 1 + ftype", "    crop.fco2 = 1 + ftype"),
     "translator error", r"aquacrop/initialize/compute_variables\.py:\d+: unsupported function compute_variables: block"),
    ("block_two_crops", "compute_variables: the crop loop of the CO2 block runs twice (`crop = ...` executed twice on a path)",
     lambda r: edit(r, CMP, "    for i in range(param_struct.NCrops):\n        crop = param_struct.CropList[i]\n        # Determine initial",
                    "    for i in range(2):\n        crop = param_struct.CropList[i]\n        # Determine initial"),
     "translator error", r"aquacrop/initialize/compute_variables\.py:\d+: unsupported second execution of `crop = \.\.\.`"),
    ("syntax_error", "water_stress: source no longer parses",
     lambda r: edit(r, WST, "    Ksw_Exp = Ks[0]\n", "    Ksw_Exp = Ks[0\n"),
     "translator error", r"aquacrop/solution/water_stress\.py:\d+: unsupported syntax"),
]


def main():
    argv = sys.argv[1:]
    keep = "--keep" in argv
    only = None
    if "--only" in argv:
        only = argv[argv.index("--only") + 1].split(",")
    files = source_files()
    rows = []
    ok_all = True
    scratch = os.path.join(BASE, "coq")
    make_scratch_tree(scratch)

    # ---- (a) baseline
    repo0 = os.path.join(BASE, "repo_base")
    copy_repo(repo0, files)
    out0, out0b = os.path.join(BASE, "out_base"), os.path.join(BASE, "out_base2")
    rc, msg = run_gen(repo0, out0)
    rc2, _ = run_gen(repo0, out0b)
    base_text = open(os.path.join(out0, "KernelsSrc.v")).read() if rc == 0 else None
    good = rc == 0 and rc2 == 0 and base_text == open(os.path.join(out0b, "KernelsSrc.v")).read()
    rows.append(("baseline/translate", "translator on the unmodified source, twice", "exit 0, identical output",
                 "exit %d/%d%s" % (rc, rc2, "" if good else " " + msg[:120]), good))
    ok_all &= good
    if base_text is not None:
        checked_in = os.path.join(THEORIES, "gen", "KernelsSrc.v")
        same = os.path.exists(checked_in) and open(checked_in).read() == base_text
        rows.append(("baseline/current", "coq/theories/gen/KernelsSrc.v is what the translator produces now", "identical",
                     "identical" if same else "DIFFERENT (regenerate)", same))
        ok_all &= same
        kind, detail = coq_check(os.path.join(out0, "KernelsSrc.v"), scratch)
        rows.append(("baseline/coq", "KernelsSrc.v and KernelsSrcOK.v compile", "still proves",
                     {"ok": "still proves", "gen": "generated file rejected: " + detail, "proof": "proof breaks at " + detail,
                      "infra": "INFRASTRUCTURE: " + detail}[kind], kind == "ok"))
        ok_all &= kind == "ok"

    # ---- (b) mutations
    for name, what, apply, expected, detail in MUTATIONS:
        if only is not None and name not in only:
            continue
        repo = os.path.join(BASE, "repo_" + name)
        out = os.path.join(BASE, "out_" + name)
        copy_repo(repo, files)
        apply(repo)
        rc, msg = run_gen(repo, out)
        wrote = os.path.exists(os.path.join(out, "KernelsSrc.v"))
        if rc != 0:
            m = re.search(r"TRANSLATOR-ERROR: (.*)", msg)
            got = "translator error"
            shown = "translator error: " + (m.group(1)[:110] if m else msg[:110])
            good = (expected == "translator error" and rc == 2 and not wrote and m is not None
                    and re.search(detail, m.group(1)) is not None)
            if wrote:
                shown += " [BUT a file was written]"
        else:
            text = open(os.path.join(out, "KernelsSrc.v")).read()
            strip = lambda s: re.sub(r"\(\*.*?\*\)", "", s, flags=re.S)
            changed = strip(text) != strip(base_text or "")
            kind, d = coq_check(os.path.join(out, "KernelsSrc.v"), scratch)
            if kind == "ok":
                got, shown = "still proves", "still proves (generated definitions %s)" % ("changed" if changed else "unchanged")
                good = expected == "still proves"
            elif kind == "proof":
                got, shown = "proof breaks", "proof breaks at " + d
                good = expected == "proof breaks" and d == detail
            elif kind == "gen":
                got, shown, good = "generated file rejected", "generated file rejected by coqc: " + d, False
            else:
                got, shown, good = "infra", "INFRASTRUCTURE: " + d, False
        exp = expected + ((" at " + detail) if expected == "proof breaks" else "")
        rows.append((name, what, exp, shown, good))
        ok_all &= good
        if not keep:
            shutil.rmtree(repo, ignore_errors=True)
            shutil.rmtree(out, ignore_errors=True)

    w = max(len(r[0]) for r in rows)
    for name, what, exp, got, good in rows:
        print("%-4s %-*s  %s\n     %*s  expected: %s\n     %*s  observed: %s" % ("ok" if good else "FAIL", w, name, what, w, "", exp, w, "", got))
    print("%d/%d as expected" % (sum(1 for r in rows if r[4]), len(rows)))
    if not keep:
        shutil.rmtree(BASE, ignore_errors=True)
    sys.exit(0 if ok_all else 1)


if __name__ == "__main__":
    main()
