#!/bin/bash
# try_patch.sh <patch.diff> <Cnn> [Cmm ...] : apply a seeded change to /repo, run the quick checks, undo it straight afterwards.
# prints one line per check:  <prop> exit=<rc> <VIOLATION line or OK line>
patch=$1; shift
cd /repo || exit 2
if ! git diff --quiet; then echo "/repo has uncommitted changes"; exit 2; fi
git apply "$patch" || { echo "patch does not apply"; exit 2; }
trap 'git -C /repo checkout -- . ; git -C /repo clean -fdq aquacrop 2>/dev/null' EXIT
cd /verif
for p in "$@"; do
  out=$(./check $p --tier quick 2>&1); rc=$?
  echo "$p exit=$rc $(echo "$out" | grep -E '^(VIOLATION|OK )' | head -1 | cut -c1-160)"
  echo "$out" | grep -E '^  - ' | head -3 | cut -c1-220
done
