#!/bin/bash
# try_seeded.sh <worktree> <dir with patch.diff demo.py> <Cnn> [Cmm ...]
# verifies a seeded change (tests pass, demo FAILs with / PASSes without) in a scratch worktree and runs the quick
# checks against that worktree (VERIF_REPO), then leaves the worktree clean.  Prints a compact report.
wt=$1; d=$2; shift 2
git -C $wt checkout -q -- . ; git -C $wt clean -fdq aquacrop
echo "[clean demo] $(cd $wt && PYTHONPATH=$wt timeout 900 /venv/bin/python -W ignore $d/demo.py 2>&1 | grep -v Warning | tail -1 | cut -c1-150) rc=$?"
git -C $wt apply $d/patch.diff || { echo "PATCH DOES NOT APPLY"; exit 2; }
echo "[tests] $(cd $wt && PYTHONPATH=$wt timeout 1200 /venv/bin/python -m pytest -q -p no:cacheprovider --timeout=900 2>&1 | tail -1)"
out=$(cd $wt && PYTHONPATH=$wt timeout 900 /venv/bin/python -W ignore $d/demo.py 2>&1); rc=$?
echo "[patched demo rc=$rc] $(echo "$out" | grep -i fail | head -1 | cut -c1-200)"
/verif/harness/tools/mut_check.sh $wt "$@"
git -C $wt checkout -q -- . ; git -C $wt clean -fdq aquacrop
