"""trace.py — run a real simulation one public step at a time and record what the monitors and the
L2 correspondence need: pre-step state, per-process ledgers (by rebinding the process names in
aquacrop.timestep.run_single_timestep), clock, parameters.  No source hooks."""
import copy
import numpy as np
import pandas as pd
from common import *
import sim
import aquacrop.timestep.run_single_timestep as RST

PROCS = ["check_groundwater_table", "root_development", "pre_irrigation", "drainage", "rainfall_partition",
         "irrigation", "infiltration", "capillary_rise", "germination", "growth_stage", "canopy_cover",
         "soil_evaporation", "transpiration", "groundwater_inflow", "HIref_current_day", "biomass_accumulation",
         "harvest_index", "root_zone_water", "growing_degree_day"]
_ORIG = {p: getattr(RST, p) for p in PROCS}


def storage(prof, th):
    return float(np.sum(np.asarray(th, dtype=float) * prof.dz) * 1000.0)


class Recorder:
    """wraps the processes of one day; rec.day is a dict filled during a step"""

    def __init__(self, deep=False):
        self.day = None
        self.deep = deep      # deep=True: keep full copies of inputs/outputs (L2)

    def install(self):
        for p in PROCS:
            setattr(RST, p, self._wrap(p))

    def uninstall(self):
        for p in PROCS:
            setattr(RST, p, _ORIG[p])

    def _wrap(self, name):
        orig = _ORIG[name]
        rec = self

        def w(*a, **k):
            d = rec.day
            if d is None:
                return orig(*a, **k)
            if name == "pre_irrigation":
                prof, crop, nc, gs, irr = a
                s0 = storage(prof, nc.th)
                r = orig(*a, **k)
                d["ledger"].append(("pre_irrigation", s0, storage(prof, r[0].th), {"PreIrr": float(r[1])}))
                return r
            if name == "drainage":
                prof, th, fcadj = a
                s0 = storage(prof, th)
                r = orig(*a, **k)
                d["ledger"].append(("drainage", s0, storage(prof, r[0]), {"DeepPerc": float(r[1])}))
                return r
            if name == "rainfall_partition":
                r = orig(*a, **k)
                d["rp"] = {"P": float(a[0]), "Runoff": float(r[0]), "Infl": float(r[1])}
                return r
            if name == "irrigation":
                r = orig(*a, **k)
                d["irr"] = {"method": a[0], "SMT": [float(x) for x in a[1]], "AppEff": float(a[2]), "MaxIrr": float(a[3]),
                            "Interval": a[4], "depth": float(a[6]), "MaxSeason": float(a[7]), "stage_in": float(a[8]),
                            "IrrCum_in": float(a[9]), "Epot": float(a[10]), "Tpot": float(a[11]), "dap": int(a[14]),
                            "tsc": int(a[15]), "gs": bool(a[19]), "rain": float(a[20]), "runoff": float(a[21]),
                            "Depletion": float(r[0]), "TAW": float(r[1]), "IrrCum": float(r[2]), "Irr": float(r[3]),
                            "sched": float(a[5][int(a[15])]) if a[0] == 3 else None}
                return r
            if name == "infiltration":
                prof = a[0]
                s0 = storage(prof, a[3]); surf0 = float(a[1])
                r = orig(*a, **k)
                d["ledger"].append(("infiltration", s0 + surf0, storage(prof, r[0]) + float(r[1]),
                                    {"Infl_in": float(a[4]), "Irr": float(a[5]), "eff": float(a[6]), "gs": bool(a[12]),
                                     "DeepPerc0": float(a[10]), "Runoff0": float(a[11]),
                                     "DeepPerc": float(r[2]), "Runoff": float(r[3]), "Infl": float(r[4])}))
                return r
            if name == "capillary_rise":
                prof, nLayer, fshape, nc, flux, wt = a
                s0 = storage(prof, nc.th)
                d["th_before_cr"] = np.array(nc.th, dtype=float)
                r = orig(*a, **k)
                th1 = np.array(r[0].th, dtype=float)
                d["ledger"].append(("capillary_rise", s0, storage(prof, th1), {"CR": float(r[1])}))
                d["th_after_cr"] = th1
                d["fcadj_at_cr"] = np.array(nc.th_fc_Adj, dtype=float)
                return r
            if name == "soil_evaporation":
                prof = a[3]
                s0 = storage(prof, a[22]) + float(a[31])
                r = orig(*a, **k)
                d["ledger"].append(("soil_evaporation", s0, storage(prof, r[1]) + float(r[5]), {"Es": float(r[7]), "EsPot": float(r[8])}))
                return r
            if name == "transpiration":
                prof = a[0]; nc = a[6]
                s0 = storage(prof, nc.th) + float(nc.surface_storage)
                r = orig(*a, **k)
                d["ledger"].append(("transpiration", s0, storage(prof, r[3].th) + float(r[3].surface_storage),
                                    {"Tr": float(r[0]), "TrPot": float(r[2]), "IrrNet": float(r[4])}))
                return r
            if name == "groundwater_inflow":
                prof, nc = a
                s0 = storage(prof, nc.th)
                r = orig(*a, **k)
                d["ledger"].append(("groundwater_inflow", s0, storage(prof, r[0].th), {"GwIn": float(r[1])}))
                return r
            if name == "check_groundwater_table":
                r = orig(*a, **k)
                d["gw"] = {"fcadj": np.array(r[0], dtype=float), "wt_in_soil": r[1], "z_gw": (None if r[2] is None else float(r[2]))}
                return r
            if name == "growth_stage":
                r = orig(*a, **k)
                d["growth_stage"] = float(r.growth_stage)
                return r
            return orig(*a, **k)
        return w


def snapshot_params(m):
    ps = m._param_struct; cs = m._clock_struct
    prof = ps.Soil.Profile
    out = {"prof": {k: np.array(getattr(prof, k)) for k in ("dz", "dzsum", "zBot", "z_top", "zMid", "Layer", "th_wp", "th_fc",
                                                              "th_s", "th_dry", "Ksat", "tau", "Penetrability", "aCR", "bCR")},
           "n_seasons": int(cs.n_seasons), "planting": [pd.Timestamp(x) for x in cs.planting_dates],
           "harvest": [pd.Timestamp(x) for x in cs.harvest_dates], "time_span": cs.time_span,
           "off_season": bool(cs.sim_off_season), "n_steps": int(cs.n_steps),
           "irr": {k: copy.deepcopy(getattr(ps.IrrMngt, k)) for k in ("irrigation_method", "WetSurf", "AppEff", "MaxIrr", "MaxIrrSeason", "SMT",
                                                                    "IrrInterval", "Schedule", "NetIrrSMT", "depth")},
           "field": dict(ps.FieldMngt.__dict__), "fallow_field": dict(ps.FallowFieldMngt.__dict__),
           "water_table": int(ps.water_table), "z_gw": np.array(ps.z_gw, dtype=float) if ps.water_table == 1 else None,
           "soil": {k: getattr(ps.Soil, k) for k in ("cn", "adj_cn", "z_cn", "z_germ", "z_top", "rew", "nComp", "nLayer", "zSoil",
                                                      "evap_z_min", "evap_z_max", "kex", "fwcc", "f_evap", "f_wrel_exp", "fshape_cr")},
           "crops": [dict((k, v) for k, v in c.__dict__.items()) for c in ps.Seasonal_Crop_List],
           "weather": np.array(m._weather[:, :4], dtype=float), "weather_dates": [pd.Timestamp(x) for x in m._weather[:, 4]]}
    return out


def trace_run(cfg, ledger=True, max_steps=None, stepper=None):
    """returns dict: init (params snapshot), days (list of per-step dicts), tables, model; raises what the model raises"""
    if cfg.get("reuse_model"):
        # HISTORY: the model object ran before over the same window with ANOTHER weather table; the user then assigns the table
        # of this configuration (weather_df setter) and runs again - every property must hold for that run exactly as for a
        # fresh model (the run re-initialises)
        objs = sim.build_objects(cfg)
        w_real = objs["weather_df"]
        wp = w_real.copy()
        wp["Precipitation"] = np.roll(wp["Precipitation"].values, 53) * 0.6 + 0.7
        wp["ReferenceET"] = np.maximum(wp["ReferenceET"].values * 1.15, 0.1)
        objs["weather_df"] = wp
        m = sim.AquaCropModel(**objs)
        try:
            m.run_model(till_termination=True)
        except Exception:
            pass
        m.weather_df = w_real
    else:
        m = sim.build_model(cfg)
    m._initialize()
    init = snapshot_params(m)
    # what the USER asked for, not the model's own reading of it
    init["off_season_model"] = init["off_season"]
    init["off_season"] = bool(cfg.get("off_season", False))
    # the weather the USER supplied for each step (by date, from the configuration's table - not from the model's own matrix):
    # the monitors judge rain / ET0 / temperatures against what the user gave
    try:
        wu = sim.make_weather(cfg["weather"]).set_index("Date")
        rows = wu.loc[init["weather_dates"], ["MinTemp", "MaxTemp", "Precipitation", "ReferenceET"]].values.astype(float)
        if rows.shape == init["weather"].shape:
            init["weather_model"] = init["weather"]
            init["weather"] = rows
    except Exception:
        pass
    # the crop envelope the USER configured (catalogue row + keyword overrides): the configured constants are judged against this,
    # not against the model's live copy of the crop (which a defect may have overwritten)
    try:
        uc = dict(sim.crop_params.get(cfg["crop"]["name"], {})); uc.update(cfg["crop"].get("kwargs") or {})
        init["crop_user"] = {k: float(uc[k]) for k in ("Zmin", "Zmax", "CCx", "HI0", "dHI0", "Tupp", "Tbase") if isinstance(uc.get(k), (int, float))}
    except Exception:
        init["crop_user"] = {}
    init["th0"] = np.array(m._init_cond.th, dtype=float)
    init["surf0"] = float(m._init_cond.surface_storage)
    rec = Recorder()
    days = []
    crops_live = {}
    init["crops_live"] = crops_live
    if ledger:
        rec.install()
    try:
        n = 0
        while not m._clock_struct.model_is_finished:
            cs = m._clock_struct; ic = m._init_cond
            d = {"tsc": int(cs.time_step_counter), "season": int(cs.season_counter), "date": pd.Timestamp(cs.step_start_time),
                 "th_pre": np.array(ic.th, dtype=float), "surf_pre": float(ic.surface_storage), "ledger": [],
                 "dap_pre": int(ic.dap), "harvest_flag_pre": bool(ic.harvest_flag),
                 "irr_cum_pre": float(ic.irr_cum), "zroot_pre": float(ic.z_root)}
            rec.day = d
            if cs.season_counter >= 0 and cs.season_counter not in crops_live:
                crops_live[int(cs.season_counter)] = dict(m._param_struct.Seasonal_Crop_List[cs.season_counter].__dict__)
            m.run_model(num_steps=1, initialize_model=False)
            rec.day = None
            ic = m._init_cond
            d["th_post"] = np.array(ic.th, dtype=float) if not _was_reset(d, m) else None
            d["crop_mature"] = bool(ic.crop_mature); d["crop_dead"] = bool(ic.crop_dead)
            days.append(d)
            n += 1
            if max_steps and n >= max_steps:
                break
    finally:
        rec.uninstall()
    out = {"init": init, "days": days, "model": m, "finished": bool(m._clock_struct.model_is_finished)}
    out.update(sim.tables(m))
    return out


def _was_reset(d, m):
    # after the step the state object may already have been reset for the next season; th_post is then not the
    # end-of-day water content.  The end-of-day content is always available from the water-storage table.
    return True
