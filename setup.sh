#!/bin/bash
# Build the framework from files on disk only (offline): generated facts, Coq development, extracted driver.
set -e
V="$(cd "$(dirname "$0")" && pwd)"
cd "$V"
export PYTHONHASHSEED=0 PYTHONPATH=$V/harness:${VERIF_REPO:-/repo} PYTHONDONTWRITEBYTECODE=1
/venv/bin/python -W ignore harness/gen_facts.py
cd coq
coq_makefile -f _CoqProject -o Makefile > /dev/null
cd ..
exec /venv/bin/python -W ignore harness/runner.py C00 --build-only
